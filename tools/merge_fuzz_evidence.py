#!/usr/bin/env python3
"""Adds the statistics of the libFuzzer stage to /verif/evidence/<id>.json."""
import json, re, sys
pid, target, log, seed = sys.argv[1:5]
text = open(log, errors="replace").read()
m = re.findall(r"#(\d+)\s+DONE\s+cov: (\d+) ft: (\d+) corp: (\d+)/(\S+)", text)
execs = re.search(r"stat::number_of_executed_units:\s*(\d+)", text)
path = f"/verif/evidence/{pid}.json"
ev = json.load(open(path))
cov = ev["coverage"]
fz = {"target": target, "seed": int(seed), "engine": "libFuzzer via cargo-fuzz (no sanitizer; safe Rust)",
      "oracle": "the same semantic oracle as the property-based check (vp::props::*::fuzz_*), violation = abort"}
if m:
    runs, c, ft, corp, size = m[-1]
    fz.update({"runs": int(runs), "coverage_edges": int(c), "features": int(ft), "final_corpus": int(corp), "corpus_bytes": size})
if execs:
    fz["executed_units"] = int(execs.group(1))
fz["crashed"] = "Test unit written to" in text
cov["fuzz_campaign"] = fz
if "runs" in fz:
    cov["evaluations"] = cov.get("evaluations", 0) + fz["runs"]
json.dump(ev, open(path, "w"), indent=1)
