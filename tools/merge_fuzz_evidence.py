#!/usr/bin/env python3
"""Adds the statistics of a libFuzzer stage to <VERIF_ROOT>/evidence/<id>.json.
usage: merge_fuzz_evidence.py <id> <target> <seed> <log> [more logs of parallel processes]"""
import json, os, re, sys
pid, target, seed = sys.argv[1:4]
logs = sys.argv[4:]
root = os.environ.get("VERIF_ROOT", "/verif")
runs = 0; cov = 0; ft = 0; corp = 0; execs = 0; crashed = False
for log in logs:
    text = open(log, errors="replace").read()
    m = re.findall(r"#(\d+)\s+DONE\s+cov: (\d+) ft: (\d+) corp: (\d+)/(\S+)", text)
    if m:
        r, c, f, cp, _ = m[-1]
        runs += int(r); cov = max(cov, int(c)); ft = max(ft, int(f)); corp = max(corp, int(cp))
    e = re.search(r"stat::number_of_executed_units:\s*(\d+)", text)
    if e:
        execs += int(e.group(1))
    crashed = crashed or ("Test unit written to" in text)
path = f"{root}/evidence/{pid}.json"
ev = json.load(open(path))
covd = ev["coverage"]
if target == "prop_case":
    fz = {"target": target, "seed": int(seed), "processes": len(logs),
          "engine": "libFuzzer via cargo-fuzz (no sanitizer; safe Rust), custom structure-aware mutator and crossover",
          "inputs": "serialised cases of the property (JSON); the mutator edits the operation/event sequence and top-level fields only with material drawn from the property's own proptest strategy, so every input is inside the generator's domain",
          "oracle": "Property::run, the same oracle as the property-based tier; violation = abort, the saved input is reduced and confirmed by vp --shrink-case"}
    key = "case_campaign"
else:
    fz = {"target": target, "seed": int(seed), "engine": "libFuzzer via cargo-fuzz (no sanitizer; safe Rust)",
          "oracle": "the same semantic oracle as the property-based check (vp::props::*::fuzz_*), violation = abort"}
    key = "fuzz_campaign"
fz.update({"runs": runs, "coverage_edges": cov, "features": ft, "final_corpus": corp, "executed_units": execs, "crashed": crashed})
covd[key] = fz
covd["evaluations"] = covd.get("evaluations", 0) + runs
json.dump(ev, open(path, "w"), indent=1)
