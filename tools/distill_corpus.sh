#!/bin/bash
# usage: tools/distill_corpus.sh <runs per process> <processes> <id> [more ids]
# Runs a coverage-guided case campaign (fuzz target prop_case) for each property on the unchanged
# tree, minimises the resulting corpus with libFuzzer's -merge=1 and keeps at most 120 cases under
# fuzz/corpus_min/<id>/ (replayed at the start of every tier). A campaign that finds a violation
# stops the script: that is a finding to look at, not something to distill.
set -u
HERE="$(cd "$(dirname "$0")/.." && pwd)"
export VERIF_ROOT="$HERE" CARGO_NET_OFFLINE=true
RUNS=$1; NPROC=$2; shift 2
BIN="$HERE/fuzz/target/x86_64-unknown-linux-gnu/release/prop_case"
(cd "$HERE/harness" && cargo build --release >/dev/null 2>&1) || exit 2
(cd "$HERE/fuzz" && cargo +nightly fuzz build --fuzz-dir . -s none prop_case >/dev/null 2>&1) || exit 2
for ID in "$@"; do
  W=/var/tmp/distill/$ID; rm -rf $W; mkdir -p $W/corpus $W/min $W/art
  "$HERE/harness/target/release/vp" $ID --emit-corpus $W/corpus 64 >/dev/null
  cp "$HERE/fuzz/corpus_min/$ID/"* $W/corpus/ 2>/dev/null
  PIDS=()
  for ((k=0; k<NPROC; k++)); do
    VP_FUZZ_PROP=$ID $BIN $W/corpus -runs=$RUNS -seed=$((7000+k)) -len_control=0 -max_len=262144 -reload=1 -timeout=600 \
      -artifact_prefix=$W/art/ -print_final_stats=1 > $W/run-$k.log 2>&1 &
    PIDS+=($!)
  done
  CRC=0; for pid in "${PIDS[@]}"; do wait $pid || CRC=1; done
  if [ $CRC -ne 0 ]; then echo "$ID: a campaign process stopped abnormally, see $W"; grep -h "FUZZ-VIOLATION\|HARNESS PANIC" $W/run-*.log | head -3 | cut -c1-400; continue; fi
  VP_FUZZ_PROP=$ID $BIN $W/min $W/corpus -merge=1 > $W/merge.log 2>&1
  rm -rf "$HERE/fuzz/corpus_min/$ID"; mkdir -p "$HERE/fuzz/corpus_min/$ID"
  ls $W/min | sort | head -120 | while read f; do cp $W/min/$f "$HERE/fuzz/corpus_min/$ID/$f.json"; done
  echo "$ID: $(ls $W/corpus | wc -l) corpus entries -> $(ls $W/min | wc -l) after merge -> $(ls "$HERE/fuzz/corpus_min/$ID" | wc -l) kept; $(grep -h 'DONE' $W/run-0.log | tail -1)"
  rm -rf $W/corpus $W/min
done
