#!/bin/bash
# usage: tools/multiseed.sh <seed> [more seeds]   -- every registered quick command, once per seed,
# each from a fresh process; prints one line per (property, seed) and a summary. Evidence files are
# overwritten by the last run: regenerate them with seed 1 afterwards.
cd "$(dirname "$0")/.." || exit 2
BAD=0
for s in "$@"; do
  for p in C01 C02 C03 C04 C05 C06 C07 C08 C09 C10 C11 C12 C13 C14 C15 C16 C17 C18 C19 C20; do
    OUT=$(VERIF_SEED=$s VERIF_TIER=quick ./check $p 2>&1); RC=$?
    LINE=$(echo "$OUT" | grep -E "^(OK|VIOLATION|INCONCLUSIVE|ERROR|BUILD)" | tail -1 | cut -c1-160)
    echo "seed=$s $p rc=$RC $LINE"
    [ $RC -ne 0 ] && BAD=$((BAD+1))
  done
done
echo "MULTISEED-DONE non-zero exits: $BAD"
