#!/usr/bin/env python3
"""Regenerates /verif/MANIFEST.json from the table below."""
import json, subprocess

def repo_commits(prefix):
    out = subprocess.run(["git", "-C", "/repo", "log", "--format=%h %s"], capture_output=True, text=True).stdout
    return [l.split()[0] for l in out.splitlines() if l.split(" ", 1)[1].startswith(prefix)]

CHECKS = {
 "C01": ("model-based differential over generated block histories (proptest): naive replay ledger vs get_utxos for every pool address after every step",
         "Generated fork trees / transaction graphs on three networks incl. bech32(m) prefix-colliding address pairs, shared transactions, same-block spends, upgrades; both directions (nothing extra, nothing missing), true height, descending order, real endpoint and page-size hook. Held on the generated cases; never absence.",
         "Trusts rust-bitcoin's script->address text; blocks are transaction-valid by construction; base58 prefix pairs not generated; order inside a height not compared."),
 "C02": ("model-based differential over generated fork trees with assigned difficulties: best tip = max over all leaf paths",
         "After every step get_blockchain_info (hash, height, timestamp, difficulty), unfiltered get_utxos tips, get_balance, get_block_headers and newly observed fee percentiles are compared with the model's heaviest chain (ties: longer, then first received).",
         "Difficulties via the repository's mock_difficulty feature; mainnet/testnet blocks pushed without header validation as the repository's tests do."),
 "C03": ("history invariants judged by a reference stability rule over generated histories and long chains",
         "Every observed anchor move is judged on the tree as it was before the move (never early, never withheld, on the served chain, exact live set, append-only stable prefix, served stable headers); long chains of 360-520 blocks (with competing forks and nested heavy short branches) exercise the testnet/regtest depth escape.",
         "Ambiguities of the statement (runner-up, .5 rounding of the bound) handled as a band: accept either reading, demand only both."),
 "C04": ("model-based differential over (history, c, address): stability-count cut decides tip and content",
         "For every c in 0..=len+2 the answer must name the model's cut block and equal the model ledger there; too-large c must be an explicit error; fork-free height formula.",
         "Error variant for too-large c not pinned."),
 "C05": ("metamorphic relation get_balance = sum(get_utxos over all pages) over generated histories",
         "All c incl. none, malformed and foreign-network addresses, query vs update variants; error classes must agree.",
         "No model needed; 40% of the histories ingest stabilising blocks in slices and check the relation at every pause."),
 "C06": ("stateful page-walk generation interleaved with state changes + mutated page tokens, against the model ledger at the first response's tip",
         "Walks start unfiltered or with min_confirmations (cut views below the tip); one further page after every following operation (blocks, forks, stabilisation, upgrades) and at every pause of a time-sliced ingestion; concatenation must equal the first tip's snapshot or end in an explicit error with the tip really gone; mutated tokens must give an error or a consistent sub-sequence, never a trap. A libFuzzer target (fuzz/page_blob) covers raw blobs in the thorough tier.",
         "The hook verif_get_utxos_with_limit calls the endpoint's internal function with a smaller page size."),
 "C07": ("model-based differential of header ranges at every step and at every pause point of sliced ingestion",
         "All (start,end) pairs for small tips (sampled otherwise, incl. the 100-header cap) compared byte-exactly with the model best chain: count, order, 80 bytes, linkage, tip_height, errors.",
         "Pause points chosen through the mock instruction counter hook."),
 "C08": ("generated budget schedules on the heartbeat driver: snapshot invariance at pause points, request recorder, twin run",
         "Snapshot before ingestion == snapshot after every paused round; no fetch / no processing while paused; rounds bounded; sliced vs unsliced twin final state and bookkeeping identical; model oracles at pause points; thorough enumerates all compositions of an 8-operation block.",
         "Lazy fee mode (stored percentiles depend on the heartbeat in which a tip is first seen)."),
 "C09": ("upgrade injection at generated message boundaries with twin runs under a request-deterministic block source",
         "Snapshot (incl. tree gauges, stable-set sizes and is_synced of the natively executed metrics endpoint) identical across pre_upgrade/post_upgrade, also from non-default configurations (plain upgrade after an upgrade with argument), tree identical, fetch state reset, exact config delta with an argument; twin without upgrades: equal sequences of distinct observable states and equal final state; next request initial; syncing completes within a bound; fee percentiles after an upgrade follow the nearest-rank model (C15's oracle).",
         "Mid-fetch = between pages/before processing; utxos_length checked at the upgrade itself (known finding F6) and excluded from twin comparison."),
 "C10": ("generated response contents (valid/duplicate/orphan/garbage/mutated blocks and announced headers) judged by an independent admission predicate",
         "Tree after processing = previous tree + admitted prefix; exactly one error counter +1 iff refused; later blocks dropped; all model query oracles and bookkeeping exactness still hold; heartbeat never traps. A libFuzzer target (fuzz/block_bytes) covers raw bytes in the thorough tier.",
         "Blocks with valid PoW are transaction-valid (domain of the property); announced headers: never trap + stored ones valid and connected."),
 "C11": ("differential against a big-integer port of Bitcoin Core's pow rules on generated header chains; mined regtest chains end to end",
         "Required target (256-bit) and timestamp rule compared on synthetic chains around 2016 boundaries on mainnet/testnet4/regtest; regtest candidates with each field perturbed: accepted iff all five clauses.",
         "Acceptance of mined mainnet/testnet headers is not executed end to end (2^32 work)."),
 "C12": ("generated blocks and merkle-preserving duplication mutations against an own merkle/uniqueness oracle",
         "accepted => sound; sound, witness-free, transaction-valid => accepted; every CVE-2012-2459-style duplication => rejected; validator directly and via the canister's insert path (also with the header announced first).",
         "One-directional for blocks carrying witness data."),
 "C13": ("generated reply scripts x hand-polled overlapping heartbeats (harness owns the await point) with request-log invariants and bounded liveness",
         "At most one request outstanding; follow-ups consecutive; initial request after reject/upgrade/completion naming anchor + all other unstable blocks; split block stored bit-identically; no block applied twice (also when the source offers a processed block again); bounded liveness after faults stop.",
         "Well-behaved source domain; 'eventually' as a bound."),
 "C14": ("generated flag/network/announced-header states probed on every endpoint against an independent gating decision",
         "refuse <=> api disabled or foreign network or (sync flag and highest announced header > best+2; send_transaction exempt); refusals have no effect; get_config/get_blockchain_info and the metrics endpoint (http_request /metrics, run natively through hook stand-ins for its three system calls) always answer, metrics with status 200, no effect, and main_chain_height/is_synced/api_access agreeing with the state; independent model of the announced headers (complete and paged replies, heartbeat and direct driver with per-block difficulties).",
         "The metrics endpoint is executed with stand-ins for time, stable_size and the cycle balance (hook e8fadfc3); its candid/http gateway layer is not."),
 "C15": ("observation-time model of nearest-rank percentiles over generated fee-paying histories incl. >10 000 transactions",
         "Same tip -> same value; new tip -> model percentiles (or previous if no transactions); 0 or 101 non-decreasing values; recomputation after upgrade equals the insertion-time cache; eager mode through the real heartbeat.",
         "The anchor counts among the best chain's unstable blocks."),
 "C16": ("generated fee tables x calls x instruction counts x attached cycles against the published formula; exhaustive client-vs-canister table",
         "Accepted cycles from the mock ledger compared with base + min(floor(ins/10)*rate, maximum-base) etc.; refusal below maximum charges nothing; cdk cost_* >= canister default maximum for every network/endpoint.",
         "Tables with maximum < base excluded; malformed transaction charged its ordinary fee."),
 "C17": ("generated explorer result multisets against an independent decision function; permutation invariance; multi-round storage path over HTTP mocks",
         "Pure decision hook and the real fetch->transform->storage->health->target path, for all five targets; stale values never reused.",
         "Even-count median rounding not fixed by the statement: either accepted."),
 "C18": ("grammar-generated and random HTTP responses through every transform with validity + metamorphic oracles",
         "No trap, no headers, same status, body in {empty, canonical height object}; height only if an independent path lookup finds it; identical result under header/whitespace/member-order/unrelated-member variations; exported transform_* functions agree. A libFuzzer target (fuzz/transform) covers raw bodies in the thorough tier.",
         "Plain-number endpoints: only all-digit bodies have a height every reading agrees on."),
 "C19": ("generated transaction serialisations and byte mutations against a hand-written strict consensus parser; round-trip",
         "Accepted iff exactly one serialised transaction (whatever the sync state): then counted and forwarded unchanged; otherwise MalformedTransaction/refusal with nothing forwarded or counted. A libFuzzer target (fuzz/send_tx) covers raw payloads in the thorough tier.",
         "Payloads far below rust-bitcoin's 4 MB allocation guard."),
 "C20": ("abstract bookkeeping snapshot recomputed from the live tree after every step of generated histories",
         "Block-cache keys = delta-map keys = live hashes; tx-out reference counts; tip depths; announced headers held = exactly the announced ones still needed (announcing scenarios of the direct driver); plus every later query runs without a trap.",
         "Heights inside the tx-out cache are not compared."),
}

CASE_IDS = {"C01", "C02", "C03", "C04", "C05", "C06", "C07", "C08", "C09", "C10", "C13", "C14", "C15", "C16", "C20"}
CASE_CAMPAIGN = "; thorough tier adds coverage-guided fuzzing (libFuzzer target prop_case): inputs are serialised cases, a structure-aware mutator edits the operation/event sequence only with material drawn from the same proptest strategy, oracle = the same Property::run; a distilled corpus of earlier campaigns is replayed in every tier"
BYTE_TARGET = {
    "C06": "; byte-level libFuzzer target page_blob (raw page tokens)",
    "C10": "; byte-level libFuzzer target block_bytes (raw response contents)",
    "C18": "; byte-level libFuzzer target transform (raw HTTP bodies)",
    "C19": "; byte-level libFuzzer target send_tx (raw payloads)",
}

def main():
    hooks = list(reversed(repo_commits("verif hooks")))
    checks = []
    for pid in sorted(CHECKS):
        tech, text, note = CHECKS[pid]
        checks.append({
            "property_id": pid,
            "quick_cmd": f"./check {pid} --tier quick",
            "thorough_cmd": f"./check {pid} --tier thorough",
            "evidence_file": f"/verif/evidence/{pid}.json",
            "replay_cmd_template": f"./check {pid} --replay {{path}}",
            "engine": "vp",
            "level_claimed": {"category": "exploration", "text": text + " Generated-input search with an explicit oracle: a pass means the property held on the counted cases, not absence of violations.", "design_ref": f"DESIGN.md section 6 {pid}"},
            "level_note": note,
            "technique": "property-based testing: " + tech + (CASE_CAMPAIGN if pid in CASE_IDS else "") + (BYTE_TARGET.get(pid, "")),
        })
    m = {
        "version": 1,
        "setup_cmd": "cd /verif/harness && CARGO_NET_OFFLINE=true cargo build --release",
        "hooks": {
            "guard": "cargo feature verif_hooks (crates ic-btc-canister, ic-btc-validation, watchdog); off by default",
            "enable": "the harness crate /verif/harness depends on /repo's crates by path with features = [\"verif_hooks\"] (plus the repository's own mock_time / mock_difficulty features); ./check rebuilds it incrementally from /repo's working tree before every run",
            "baseline_off_cmd": "cd /repo && (cargo nextest run --workspace --no-fail-fast --tool-config-file pb:/w/lib/nextest.toml --profile pb --test-threads 8 --offline || cargo test --workspace --no-fail-fast --offline)",
            "source_commits": hooks,
            "add_only": True,
        },
        "engines": [{
            "name": "vp", "path": "/verif/harness", "serves_properties": sorted(CHECKS),
            "kind_free_text": "Rust binary linking the real canister / validation / watchdog crates natively; proptest 1.10 TestRunner per worker thread (16 workers, seeds derived from VERIF_SEED), reference models, shrinking, replay files, regression tier, known-findings file; libFuzzer targets under /verif/fuzz for the thorough tier: four byte-level targets (C06 C10 C18 C19) and one generic structure-aware target over serialised cases (15 properties); crash artefacts are confirmed (and reduced) by the stable binary before a VIOLATION line is printed",
        }],
        "checks": checks,
        "notes": "KNOWN_FINDINGS.txt lists repaired defects (fixed:) and the one recorded finding (known: C09 F6). Regressions under /verif/regressions run first in every tier.",
        "not_applicable": [],
    }
    json.dump(m, open("/verif/MANIFEST.json", "w"), indent=1)
    print("wrote MANIFEST.json with", len(checks), "checks; hooks", hooks)

main()
