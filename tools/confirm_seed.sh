#!/bin/bash
# usage: tools/confirm_seed.sh <ID> <crate> [test-filter]   -- confirms a sub-agent's seeded change in its own scratch
# worktree /tmp/seed/<ID>/wt: patch applies on pristine HEAD, demo fails with and passes without the change, the
# crate's suite is otherwise unchanged. Writes /tmp/seed/<ID>/SEED/CONFIRM.txt.
ID=$1; CRATE=$2; FILTER=${3:-seed}
WT=/tmp/seed/$ID/wt; S=/tmp/seed/$ID/SEED; OUT=$S/CONFIRM.txt
cd $WT || exit 2
git reset -q --hard; git clean -fdq -e target
: > $OUT
git apply --check $S/patch.diff && echo "patch applies on pristine HEAD" >> $OUT || { echo "PATCH DOES NOT APPLY" >> $OUT; exit 1; }
git apply $S/patch.diff && git apply $S/demo.diff && echo "demo applies on top" >> $OUT || { echo "DEMO DOES NOT APPLY ON PATCH" >> $OUT; exit 1; }
echo "== suite WITH change (+demo): cargo test -p $CRATE --lib --offline" >> $OUT
cargo test -p $CRATE --lib --offline -j 8 2>&1 | grep -E "^test .* (FAILED|failed)$|^test result" >> $OUT
git reset -q --hard; git clean -fdq -e target
git apply $S/demo.diff || { echo "DEMO DOES NOT APPLY ON PRISTINE" >> $OUT; exit 1; }
echo "== suite WITHOUT change (+demo)" >> $OUT
cargo test -p $CRATE --lib --offline -j 8 2>&1 | grep -E "^test .* (FAILED|failed)$|^test result" >> $OUT
git reset -q --hard; git clean -fdq -e target
cat $OUT
