#!/bin/bash
# usage: tools/seedtest_isolated.sh <patch.diff> <check id> [more check ids]
# Like seedtest.sh but never touches /repo or /verif: the patch is applied to a scratch worktree
# of /repo (/var/tmp/seedrig/repo, reset to /repo's HEAD first) and the harness is built from a
# copy of /verif/harness whose path dependencies point at that worktree.
set -u
PATCH=$1; shift
RIG=/var/tmp/seedrig
cd $RIG/repo || exit 2
git reset -q --hard && git clean -fdq
git checkout -q --detach "$(git -C /repo rev-parse HEAD)" || exit 2
git apply "$PATCH" || { echo "patch does not apply"; exit 2; }
mkdir -p $RIG/verif/harness $RIG/verif/fuzz
rsync -a --delete --exclude target /verif/harness/ $RIG/verif/harness/
rsync -a --delete /verif/regressions /verif/KNOWN_FINDINGS.txt $RIG/verif/ 
rsync -a --delete /verif/fuzz/seeds /verif/fuzz/regressions $RIG/verif/fuzz/ 2>/dev/null
sed -i 's#path = "/repo/#path = "/var/tmp/seedrig/repo/#g' $RIG/verif/harness/Cargo.toml
cd $RIG/verif/harness
if ! cargo build --release > $RIG/build.log 2>&1; then echo "BUILD FAILED"; tail -20 $RIG/build.log; exit 2; fi
export VERIF_ROOT=$RIG/verif
for c in "$@"; do
  START=$(date +%s)
  OUT=$(./target/release/vp $c --tier quick 2>&1 | grep -v "Aborting shrinking" | grep -E "^(violation|VIOLATION|OK|INCONCLUSIVE|ERROR|regression|saved)" | cut -c1-700)
  echo "[$c] $(( $(date +%s) - START ))s"
  echo "$OUT" | head -4
done
cd $RIG/repo && git reset -q --hard
