#!/bin/bash
# usage: tools/seedtest.sh <patch.diff> <check id> [more check ids]
# Applies a seeded change to /repo, runs the quick tier of the given checks, and ALWAYS restores /repo.
PATCH=$1; shift
cd /repo || exit 2
if [ -n "$(git status --porcelain --untracked-files=no)" ]; then echo "/repo is dirty"; exit 2; fi
git apply "$PATCH" || { echo "patch does not apply"; exit 2; }
# restore /repo and rebuild the harness from the restored tree, so that no binary built from a seeded tree is left behind
trap 'git -C /repo checkout -- . ; git -C /verif checkout -- evidence ; (cd /verif/harness && cargo build --release >/dev/null 2>&1)' EXIT
cd /verif
for c in "$@"; do
  START=$(date +%s)
  OUT=$(./check $c --tier quick 2>&1 | grep -v "Aborting shrinking" | grep -E "^(violation|VIOLATION|OK|INCONCLUSIVE|BUILD|regression)" | cut -c1-700)
  echo "[$c] $(( $(date +%s) - START ))s"
  echo "$OUT" | head -4
done
