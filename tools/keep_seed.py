#!/usr/bin/env python3
"""usage: keep_seed.py <ID> <seed dir name> <needs text> <caught by (comma sep)> <detect note>"""
import sys, json, shutil, os
pid, name, needs, caught, note = sys.argv[1:6]
src = f"/tmp/seed/keep/{pid}" if os.path.isdir(f"/tmp/seed/keep/{pid}") else f"/tmp/seed/{pid}/SEED"
dst = f"/verif/seeded/{name}"
os.makedirs(dst, exist_ok=True)
for f in ("patch.diff", "demo.diff", "NOTES.md", "CONFIRM.txt"):
    if os.path.exists(f"{src}/{f}"):
        shutil.copy(f"{src}/{f}", f"{dst}/{f}")
meta = {
    "property": pid,
    "origin": "independent sub-agent given only the property text and a scratch worktree of /repo",
    "what_it_needs_to_manifest": needs,
    "confirmed_by_me": "in the scratch worktree (see CONFIRM.txt): patch applies on pristine HEAD; crate test suite passes with the change except the two data-file tests that fail before any change (and the demo itself); demonstration fails with the change and passes without it",
    "checks_run_against_it": "tools/seedtest_isolated.sh <patch> <checks>: the patch is applied to a scratch worktree of /repo that a copy of the harness links against, then ./check <id> --tier quick there",
    "caught_by": [c for c in caught.split(",") if c],
    "detection": note,
}
json.dump(meta, open(f"{dst}/meta.json", "w"), indent=1)
print("kept", dst)
