#!/bin/bash
# usage: tools/fuzztest_isolated.sh <patch.diff> <check id> [runs per process] [processes]
# Sensitivity test of the generic coverage-guided case campaign (fuzz target prop_case) against a
# seeded change, without touching /repo or /verif: like seedtest_isolated.sh, plus a copy of
# /verif/fuzz built against the patched scratch worktree. Prints what ./check would print.
set -u
PATCH=$1; ID=$2; RUNS=${3:-4000}; NPROC=${4:-8}
RIG=/var/tmp/seedrig
cd $RIG/repo || exit 2
git reset -q --hard && git clean -fdq
git checkout -q --detach "$(git -C /repo rev-parse HEAD)" || exit 2
git apply "$PATCH" || { echo "patch does not apply"; exit 2; }
mkdir -p $RIG/verif/harness $RIG/verif/fuzz $RIG/verif/replays $RIG/verif/evidence
rsync -a --delete --exclude target /verif/harness/ $RIG/verif/harness/
rsync -a --delete --exclude target --exclude corpus /verif/fuzz/ $RIG/verif/fuzz/
rsync -a --delete /verif/regressions /verif/KNOWN_FINDINGS.txt $RIG/verif/
sed -i 's#path = "/repo/#path = "/var/tmp/seedrig/repo/#g' $RIG/verif/harness/Cargo.toml
export VERIF_ROOT=$RIG/verif CARGO_NET_OFFLINE=true
(cd $RIG/verif/harness && cargo build --release > $RIG/build.log 2>&1) || { echo "BUILD FAILED"; tail -20 $RIG/build.log; exit 2; }
(cd $RIG/verif/fuzz && cargo +nightly fuzz build --fuzz-dir . -s none prop_case > $RIG/fuzz-build.log 2>&1) || { echo "FUZZ BUILD FAILED"; tail -20 $RIG/fuzz-build.log; exit 2; }
CORPUS=$RIG/corpus-$ID; rm -rf $CORPUS; mkdir -p $CORPUS; rm -f $RIG/verif/replays/$ID-case-*
$RIG/verif/harness/target/release/vp $ID --emit-corpus $CORPUS 64 > /dev/null
START=$(date +%s)
PIDS=()
for ((k=0; k<NPROC; k++)); do
  VP_FUZZ_PROP=$ID $RIG/verif/fuzz/target/x86_64-unknown-linux-gnu/release/prop_case $CORPUS -runs=$RUNS -seed=$((1000+k)) \
    -len_control=0 -max_len=262144 -reload=1 -artifact_prefix=$RIG/verif/replays/$ID-case- -print_final_stats=1 > $RIG/case-$k.log 2>&1 &
  PIDS+=($!)
done
CRC=0; for pid in "${PIDS[@]}"; do wait $pid || CRC=1; done
echo "[$ID case campaign] $(( $(date +%s) - START ))s, crashed=$CRC"
grep -h "stat::number_of_executed_units" $RIG/case-*.log | awk '{s+=$2} END {print "executed units:", s}'
if [ $CRC -ne 0 ]; then
  ART=$(grep -ho "Test unit written to .*" $RIG/case-*.log | sed 's/Test unit written to //' | grep "/$ID-case-crash-" | head -1)
  grep -h "FUZZ-VIOLATION" $RIG/case-*.log | head -1 | cut -c1-400
  [ -n "$ART" ] && $RIG/verif/harness/target/release/vp $ID --shrink-case "$ART" | cut -c1-600
fi
cd $RIG/repo && git reset -q --hard
