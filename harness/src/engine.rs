//! Property runner: parallel proptest workers, shrinking, replay files, known findings, evidence.
use crate::say;
use proptest::strategy::BoxedStrategy;
use proptest::test_runner::{Config, RngAlgorithm, TestCaseError, TestError, TestRng, TestRunner};
use serde::de::DeserializeOwned;
use serde::Serialize;
use std::collections::{BTreeMap, BTreeSet};
use std::sync::atomic::{AtomicBool, Ordering};
use std::sync::{Arc, Mutex};
use std::time::Instant;

#[derive(Clone, Copy, Debug, PartialEq, Eq)]
pub enum Tier {
    Quick,
    Thorough,
}

impl Tier {
    pub fn name(self) -> &'static str {
        match self {
            Tier::Quick => "quick",
            Tier::Thorough => "thorough",
        }
    }
}

/// A disagreement between implementation and oracle. `key` names a finding signature when the
/// disagreement matches one exactly; `None` otherwise.
#[derive(Clone, Debug)]
pub struct Disc {
    pub key: Option<&'static str>,
    pub msg: String,
}

impl Disc {
    pub fn new(msg: impl Into<String>) -> Self {
        Disc {
            key: None,
            msg: msg.into(),
        }
    }
    pub fn keyed(key: &'static str, msg: impl Into<String>) -> Self {
        Disc {
            key: Some(key),
            msg: msg.into(),
        }
    }
}

#[derive(Clone, Debug, Default)]
pub struct Outcome {
    pub discs: Vec<Disc>,
    /// 64-bit shape hashes of the non-trivial sub-cases seen in this case.
    pub nontrivial: Vec<u64>,
    /// Class labels -> count.
    pub classes: BTreeMap<&'static str, u64>,
    /// Number of oracle comparisons performed.
    pub checks: u64,
}

impl Outcome {
    pub fn class(&mut self, name: &'static str) {
        *self.classes.entry(name).or_insert(0) += 1;
    }
    pub fn class_n(&mut self, name: &'static str, n: u64) {
        *self.classes.entry(name).or_insert(0) += n;
    }
    pub fn nontrivial(&mut self, h: u64) {
        self.nontrivial.push(h);
    }
    pub fn fail(&mut self, msg: impl Into<String>) {
        self.discs.push(Disc::new(msg));
    }
    pub fn known(&mut self, key: &'static str, msg: impl Into<String>) {
        self.discs.push(Disc::keyed(key, msg));
    }
}

pub fn fnv(data: &[u8]) -> u64 {
    let mut h: u64 = 0xcbf29ce484222325;
    for b in data {
        h ^= *b as u64;
        h = h.wrapping_mul(0x100000001b3);
    }
    h
}

pub fn hash_of<T: std::fmt::Debug>(t: &T) -> u64 {
    fnv(format!("{:?}", t).as_bytes())
}

pub trait Property: Sync + Send + 'static {
    type Case: Clone + std::fmt::Debug + Serialize + DeserializeOwned + Send + Sync + 'static;
    fn id(&self) -> &'static str;
    fn strategy(&self, tier: Tier) -> BoxedStrategy<Self::Case>;
    fn cases(&self, tier: Tier) -> u32;
    fn run(&self, case: &Self::Case) -> Outcome;
    fn rule(&self) -> String;
    fn assumptions(&self) -> Vec<String> {
        vec![]
    }
    /// A short human-readable rendering of a case for the evidence samples.
    fn brief(&self, case: &Self::Case) -> serde_json::Value {
        serde_json::to_value(case).unwrap_or(serde_json::Value::Null)
    }
    /// Class labels whose count must be > 0 for the generator to be considered healthy.
    fn required_classes(&self, _tier: Tier) -> Vec<&'static str> {
        vec![]
    }
    /// Extra deterministic cases (exhaustive enumerations etc.) to run in addition to the
    /// generated ones.
    fn extra_cases(&self, _tier: Tier) -> Vec<Self::Case> {
        vec![]
    }
    fn max_shrink_iters(&self) -> u32 {
        2000
    }
    /// Byte-level entry point shared with the libFuzzer target of this property (name of the
    /// target, function). Saved fuzz inputs are replayed through it without the fuzzer.
    #[allow(clippy::type_complexity)]
    fn raw_target(&self) -> Option<(&'static str, fn(&[u8]) -> Outcome)> {
        None
    }
    /// JSON pointers to the operation/event sequences of a serialised case: the places where the
    /// mutator of the generic coverage-guided target may insert, delete and replace elements.
    /// Each with the longest sequence the mutator may build (the thorough tier's bound).
    fn fuzz_sequences(&self) -> Vec<(&'static str, usize)> {
        vec![]
    }
    /// Cost guard of the mutator (not a domain restriction of the property): a mutated case
    /// that is not admissible is not handed to the fuzzer.
    fn fuzz_admissible(&self, _case: &Self::Case) -> bool {
        true
    }
}

fn judge_raw(known_keys: &BTreeSet<String>, f: fn(&[u8]) -> Outcome, data: &[u8]) -> Result<(), String> {
    let out = f(data);
    let bad: Vec<String> = out
        .discs
        .iter()
        .filter(|d| !matches!(d.key, Some(k) if known_keys.contains(k)))
        .map(|d| d.msg.clone())
        .collect();
    if bad.is_empty() {
        Ok(())
    } else {
        Err(bad.join(" | "))
    }
}

pub struct KnownFindings {
    pub known: Vec<(String, String, String)>, // (property, key, text)
    pub fixed: Vec<(String, String)>,
}

pub fn verif_root() -> std::path::PathBuf {
    if let Ok(p) = std::env::var("VERIF_ROOT") {
        return p.into();
    }
    // harness/target/release/vp -> /verif
    let exe = std::env::current_exe().unwrap();
    let mut p = exe.as_path();
    for _ in 0..4 {
        p = p.parent().unwrap();
    }
    p.to_path_buf()
}

pub fn load_known_findings() -> KnownFindings {
    let path = verif_root().join("KNOWN_FINDINGS.txt");
    let text = std::fs::read_to_string(path).unwrap_or_default();
    let mut known = vec![];
    let mut fixed = vec![];
    for line in text.lines() {
        let line = line.trim();
        if let Some(rest) = line.strip_prefix("known:") {
            let rest = rest.trim();
            let mut prop = String::new();
            let mut key = String::new();
            let mut words = vec![];
            for w in rest.split_whitespace() {
                if let Some(p) = w.strip_prefix("property=") {
                    if prop.is_empty() {
                        prop = p.to_string();
                        continue;
                    }
                }
                if let Some(k) = w.strip_prefix("key=") {
                    if key.is_empty() {
                        key = k.to_string();
                        continue;
                    }
                }
                words.push(w);
            }
            known.push((prop, key, words.join(" ")));
        } else if let Some(rest) = line.strip_prefix("fixed:") {
            let rest = rest.trim();
            let prop = rest
                .split_whitespace()
                .find_map(|w| w.strip_prefix("property="))
                .unwrap_or("")
                .to_string();
            fixed.push((prop, rest.to_string()));
        }
    }
    KnownFindings { known, fixed }
}

#[derive(Default)]
struct Stats {
    evaluations: u64,
    checks: u64,
    nontrivial: BTreeSet<u64>,
    nontrivial_cases: u64,
    classes: BTreeMap<&'static str, u64>,
    known_hits: BTreeMap<String, u64>,
    samples: Vec<serde_json::Value>,
}

#[derive(Serialize, serde::Deserialize)]
pub struct ReplayFile<C> {
    pub property: String,
    pub seed: u64,
    pub note: String,
    pub case: C,
}

pub struct RunArgs {
    pub tier: Tier,
    pub seed: u64,
    pub replay: Option<String>,
    /// A failing input of the generic coverage-guided target (a serialised case): reduce it,
    /// write the replay file, confirm.
    pub shrink_case: Option<String>,
    /// Write a starting corpus of this many recorded inputs into the directory and exit.
    pub emit_corpus: Option<(String, usize)>,
    pub workers: usize,
    pub cases_override: Option<u32>,
}

/// Evaluates one case: returns Err(message) iff it shows a violation not covered by a listed
/// known finding.
fn judge<P: Property>(
    prop: &P,
    known_keys: &BTreeSet<String>,
    case: &P::Case,
) -> (Outcome, Result<(), String>) {
    let out = prop.run(case);
    let mut bad = vec![];
    for d in &out.discs {
        match d.key {
            Some(k) if known_keys.contains(k) => {}
            Some(k) => bad.push(format!("[{}] {}", k, d.msg)),
            None => bad.push(d.msg.clone()),
        }
    }
    let res = if bad.is_empty() {
        Ok(())
    } else {
        Err(bad.join(" | "))
    };
    (out, res)
}

fn write_evidence<P: Property>(
    prop: &P,
    args: &RunArgs,
    stats: &Stats,
    violations: u64,
    wall: f64,
    extra: serde_json::Value,
) {
    let root = verif_root();
    let dir = root.join("evidence");
    let _ = std::fs::create_dir_all(&dir);
    let classes: BTreeMap<String, u64> = stats
        .classes
        .iter()
        .map(|(k, v)| (k.to_string(), *v))
        .collect();
    let ev = serde_json::json!({
        "property_id": prop.id(),
        "tier": args.tier.name(),
        "seed": args.seed,
        "level": "exploration",
        "coverage": {
            "evaluations": stats.evaluations,
            "distinct_nontrivial": stats.nontrivial.len(),
            "nontrivial_cases": stats.nontrivial_cases,
            "oracle_comparisons": stats.checks,
            "rule": prop.rule(),
            "classes": classes,
            "known_finding_hits": stats.known_hits,
            "samples": stats.samples,
            "extra": extra,
        },
        "assumptions": prop.assumptions(),
        "wall_s": wall,
        "violations": violations,
    });
    let path = dir.join(format!("{}.json", prop.id()));
    std::fs::write(&path, serde_json::to_string_pretty(&ev).unwrap()).unwrap();
}

fn seed_bytes(seed: u64, worker: u64, salt: &str) -> [u8; 32] {
    let mut out = [0u8; 32];
    let a = fnv(format!("{}-{}-{}-a", seed, worker, salt).as_bytes());
    let b = fnv(format!("{}-{}-{}-b", seed, worker, salt).as_bytes());
    let c = fnv(format!("{}-{}-{}-c", seed, worker, salt).as_bytes());
    let d = fnv(format!("{}-{}-{}-d", seed, worker, salt).as_bytes());
    out[0..8].copy_from_slice(&a.to_le_bytes());
    out[8..16].copy_from_slice(&b.to_le_bytes());
    out[16..24].copy_from_slice(&c.to_le_bytes());
    out[24..32].copy_from_slice(&d.to_le_bytes());
    out
}

fn spawn_big<F: FnOnce() -> T + Send + 'static, T: Send + 'static>(f: F) -> std::thread::JoinHandle<T> {
    std::thread::Builder::new()
        .stack_size(256 << 20)
        .spawn(f)
        .unwrap()
}

/// Runs the property; returns the process exit code.
pub fn run_property<P: Property>(prop: P, args: RunArgs) -> i32 {
    let start = Instant::now();
    let prop = Arc::new(prop);
    let id = prop.id();
    let kf = load_known_findings();
    let known_keys: BTreeSet<String> = kf
        .known
        .iter()
        .filter(|(p, _, _)| p == id)
        .map(|(_, k, _)| k.clone())
        .collect();
    let root = verif_root();

    if let Some((dir, n)) = &args.emit_corpus {
        let _ = std::fs::create_dir_all(dir);
        let corpus = fresh_corpus(&*prop, args.seed, *n);
        for (k, c) in corpus.iter().enumerate() {
            std::fs::write(std::path::Path::new(dir).join(format!("gen-{:04}.json", k)), c).unwrap();
        }
        say!("wrote {} generated cases to {}", corpus.len(), dir);
        return 0;
    }
    if let Some(path) = &args.shrink_case {
        return shrink_case_file(prop.clone(), known_keys.clone(), path, args.seed);
    }

    // ---- replay mode -------------------------------------------------------------------------
    if let Some(path) = &args.replay {
        let bytes = std::fs::read(path).expect("cannot read replay file");
        let parsed: Option<ReplayFile<P::Case>> = std::str::from_utf8(&bytes).ok().and_then(|t| {
            serde_json::from_str::<ReplayFile<P::Case>>(t).ok().or_else(|| {
                // a bare serialised case (input of the generic coverage-guided target)
                serde_json::from_str::<P::Case>(t).ok().map(|case| ReplayFile { property: id.to_string(), seed: args.seed, note: String::new(), case })
            })
        });
        let rf = match parsed {
            Some(rf) => rf,
            None => {
                // a saved input of the byte-level fuzz target
                let (_, f) = prop.raw_target().expect("replay file is neither a JSON replay file nor does this property have a byte-level target");
                let keys = known_keys.clone();
                let res = match spawn_big(move || {
                    crate::sut::install_panic_hook();
                    judge_raw(&keys, f, &bytes)
                })
                .join()
                {
                    Ok(r) => r,
                    Err(_) => {
                        say!("ERROR: the harness itself panicked while replaying {} (not a verdict on the property)", path);
                        return 2;
                    }
                };
                return match res {
                    Ok(()) => {
                        say!("replay {}: property {} held", path, id);
                        0
                    }
                    Err(m) => {
                        say!("replay {}: {}", path, m);
                        say!("VIOLATION property={} replay={}", id, path);
                        1
                    }
                };
            }
        };
        let prop2 = prop.clone();
        let keys = known_keys.clone();
        let res = spawn_big(move || {
            crate::sut::install_panic_hook();
            judge(&*prop2, &keys, &rf.case).1
        })
        .join()
        .unwrap();
        return match res {
            Ok(()) => {
                say!("replay {}: property {} held", path, id);
                0
            }
            Err(m) => {
                say!("replay {}: {}", path, m);
                say!("VIOLATION property={} replay={}", id, path);
                1
            }
        };
    }

    // ---- regression tier ---------------------------------------------------------------------
    let mut stats = Stats::default();
    let mut first_violation: Option<(String, String)> = None; // (replay path, message)
    let reg_dir = root.join("regressions");
    let mut reg_files: Vec<std::path::PathBuf> = std::fs::read_dir(&reg_dir)
        .map(|d| {
            d.filter_map(|e| e.ok())
                .map(|e| e.path())
                .filter(|p| {
                    p.file_name()
                        .and_then(|n| n.to_str())
                        .map(|n| n.starts_with(&format!("{}-", id)) && n.ends_with(".json"))
                        .unwrap_or(false)
                })
                .collect()
        })
        .unwrap_or_default();
    reg_files.sort();
    let mut regressions_run = 0u64;
    for path in &reg_files {
        let text = std::fs::read_to_string(path).unwrap();
        let rf: ReplayFile<P::Case> = match serde_json::from_str(&text) {
            Ok(r) => r,
            Err(e) => {
                say!("ERROR: regression file {} does not parse: {}", path.display(), e);
                return 2;
            }
        };
        let prop2 = prop.clone();
        let keys = known_keys.clone();
        let (out, res) = spawn_big(move || {
            crate::sut::install_panic_hook();
            judge(&*prop2, &keys, &rf.case)
        })
        .join()
        .unwrap();
        regressions_run += 1;
        for d in &out.discs {
            if let Some(k) = d.key {
                if known_keys.contains(k) {
                    *stats.known_hits.entry(k.to_string()).or_insert(0) += 1;
                }
            }
        }
        if let Err(m) = res {
            say!("regression {}: {}", path.display(), m);
            first_violation = Some((path.display().to_string(), m));
            break;
        }
    }

    // saved inputs of the byte-level fuzz target (seeds and regressions)
    let mut raw_replayed = 0u64;
    if first_violation.is_none() {
        if let Some((name, f)) = prop.raw_target() {
            let mut files: Vec<std::path::PathBuf> = vec![];
            for sub in ["seeds", "regressions"] {
                if let Ok(d) = std::fs::read_dir(root.join("fuzz").join(sub).join(name)) {
                    files.extend(d.filter_map(|e| e.ok()).map(|e| e.path()).filter(|p| p.is_file()));
                }
            }
            files.sort();
            let keys = known_keys.clone();
            let res: Vec<(std::path::PathBuf, Result<(), String>)> = spawn_big(move || {
                crate::sut::install_panic_hook();
                files.into_iter().map(|p| {
                    let data = std::fs::read(&p).unwrap_or_default();
                    let r = judge_raw(&keys, f, &data);
                    (p, r)
                }).collect()
            })
            .join()
            .unwrap();
            for (p, r) in res {
                raw_replayed += 1;
                if let Err(m) = r {
                    say!("saved fuzz input {}: {}", p.display(), m);
                    first_violation = Some((p.display().to_string(), m));
                    break;
                }
            }
        }
    }

    // distilled corpus of the generic coverage-guided target (serialised cases kept because they
    // reached code no smaller case of an earlier campaign reached)
    let mut distilled_replayed = 0u64;
    if first_violation.is_none() {
        let mut files: Vec<std::path::PathBuf> = std::fs::read_dir(root.join("fuzz").join("corpus_min").join(id))
            .map(|d| d.filter_map(|e| e.ok()).map(|e| e.path()).filter(|p| p.is_file()).collect())
            .unwrap_or_default();
        files.sort();
        let chunks: Vec<Vec<std::path::PathBuf>> = {
            let w = args.workers.max(1);
            let mut c = vec![vec![]; w];
            for (i, f) in files.into_iter().enumerate() {
                c[i % w].push(f);
            }
            c
        };
        let mut handles = vec![];
        for chunk in chunks {
            let prop2 = prop.clone();
            let keys = known_keys.clone();
            handles.push(spawn_big(move || {
                crate::sut::install_panic_hook();
                let mut n = 0u64;
                let mut checks = 0u64;
                let mut bad: Option<(std::path::PathBuf, String)> = None;
                for p in chunk {
                    let data = std::fs::read(&p).unwrap_or_default();
                    if let Some(case) = parse_case::<P::Case>(&data) {
                        n += 1;
                        let (out, res) = judge(&*prop2, &keys, &case);
                        checks += out.checks;
                        if let Err(m) = res {
                            bad = Some((p, m));
                            break;
                        }
                    }
                }
                (n, checks, bad)
            }));
        }
        let mut bads = vec![];
        for h in handles {
            let (n, checks, bad) = h.join().unwrap();
            distilled_replayed += n;
            stats.checks += checks;
            if let Some(b) = bad {
                bads.push(b);
            }
        }
        bads.sort();
        if let Some((p, m)) = bads.into_iter().next() {
            say!("distilled corpus case {}: {}", p.display(), m);
            first_violation = Some((p.display().to_string(), m));
        }
    }

    // ---- generated tier ----------------------------------------------------------------------
    let workers = args.workers.max(1);
    let total_cases = args.cases_override.unwrap_or_else(|| prop.cases(args.tier));
    let stop = Arc::new(AtomicBool::new(false));
    let shared: Arc<Mutex<Stats>> = Arc::new(Mutex::new(stats));
    let failure: Arc<Mutex<Option<(u64, P::Case, String)>>> = Arc::new(Mutex::new(None));

    if first_violation.is_none() {
        // extra deterministic cases are split round-robin over workers
        let extras = Arc::new(prop.extra_cases(args.tier));
        let mut handles = vec![];
        for w in 0..workers {
            let prop = prop.clone();
            let stop = stop.clone();
            let shared = shared.clone();
            let failure = failure.clone();
            let keys = known_keys.clone();
            let extras = extras.clone();
            let tier = args.tier;
            let seed = args.seed;
            let n = total_cases / workers as u32 + if (w as u32) < total_cases % workers as u32 { 1 } else { 0 };
            handles.push(spawn_big(move || {
                crate::sut::install_panic_hook();
                let mut local = Stats::default();
                let counting = std::cell::Cell::new(true);
                let local_cell = std::cell::RefCell::new(&mut local);
                let eval = |case: &P::Case| -> Result<(), String> {
                    let (out, res) = judge(&*prop, &keys, case);
                    if counting.get() {
                        let mut l = local_cell.borrow_mut();
                        l.evaluations += 1;
                        l.checks += out.checks;
                        if !out.nontrivial.is_empty() {
                            l.nontrivial_cases += 1;
                        }
                        for h in &out.nontrivial {
                            l.nontrivial.insert(*h);
                        }
                        for (k, v) in &out.classes {
                            *l.classes.entry(k).or_insert(0) += v;
                        }
                        for d in &out.discs {
                            if let Some(k) = d.key {
                                if keys.contains(k) {
                                    *l.known_hits.entry(k.to_string()).or_insert(0) += 1;
                                }
                            }
                        }
                        if l.samples.len() < 2 && !out.nontrivial.is_empty() {
                            let s = prop.brief(case);
                            l.samples.push(s);
                        }
                        if res.is_err() {
                            counting.set(false);
                        }
                    }
                    res
                };

                // deterministic extras first
                let mut fail: Option<(P::Case, String)> = None;
                for (i, c) in extras.iter().enumerate() {
                    if i % workers != w {
                        continue;
                    }
                    if stop.load(Ordering::Relaxed) {
                        break;
                    }
                    if let Err(m) = eval(c) {
                        fail = Some((c.clone(), m));
                        break;
                    }
                }

                if fail.is_none() && n > 0 {
                    let config = Config {
                        cases: n,
                        failure_persistence: None,
                        max_shrink_iters: prop.max_shrink_iters(),
                        max_global_rejects: 10_000_000,
                        ..Config::default()
                    };
                    let rng = TestRng::from_seed(RngAlgorithm::ChaCha, &seed_bytes(seed, w as u64, prop.id()));
                    let mut runner = TestRunner::new_with_rng(config, rng);
                    let strat = prop.strategy(tier);
                    let stop2 = stop.clone();
                    let r = runner.run(&strat, |case| {
                        if stop2.load(Ordering::Relaxed) && counting.get() {
                            // another worker found a failure: finish quickly
                            return Ok(());
                        }
                        eval(&case).map_err(TestCaseError::fail)
                    });
                    match r {
                        Ok(()) => {}
                        Err(TestError::Fail(reason, case)) => {
                            fail = Some((case, reason.message().to_string()));
                        }
                        Err(TestError::Abort(reason)) => {
                            fail = None;
                            crate::say!("worker {} aborted: {}", w, reason.message());
                        }
                    }
                }
                let _ = eval;
                drop(local_cell);
                if let Some((case, msg)) = fail {
                    stop.store(true, Ordering::Relaxed);
                    let mut f = failure.lock().unwrap();
                    if f.as_ref().map(|(ow, _, _)| (w as u64) < *ow).unwrap_or(true) {
                        *f = Some((w as u64, case, msg));
                    }
                }
                let mut s = shared.lock().unwrap();
                s.evaluations += local.evaluations;
                s.checks += local.checks;
                s.nontrivial_cases += local.nontrivial_cases;
                s.nontrivial.extend(local.nontrivial.iter());
                for (k, v) in &local.classes {
                    *s.classes.entry(k).or_insert(0) += v;
                }
                for (k, v) in &local.known_hits {
                    *s.known_hits.entry(k.clone()).or_insert(0) += v;
                }
                if s.samples.len() < 5 {
                    s.samples.extend(local.samples.into_iter().take(1));
                }
            }));
        }
        for h in handles {
            h.join().unwrap();
        }
    }

    let stats = Arc::try_unwrap(shared).ok().unwrap().into_inner().unwrap();
    let failure = Arc::try_unwrap(failure).ok().unwrap().into_inner().unwrap();

    if first_violation.is_none() {
        if let Some((_, case, msg)) = failure {
            let dir = root.join("replays");
            let _ = std::fs::create_dir_all(&dir);
            let path = dir.join(format!("{}-{}.json", id, args.seed));
            let rf = ReplayFile {
                property: id.to_string(),
                seed: args.seed,
                note: msg.clone(),
                case: case.clone(),
            };
            std::fs::write(&path, serde_json::to_string_pretty(&rf).unwrap()).unwrap();
            // confirm deterministically without the library
            let prop2 = prop.clone();
            let keys = known_keys.clone();
            let confirm = spawn_big(move || {
                crate::sut::install_panic_hook();
                judge(&*prop2, &keys, &case).1
            })
            .join()
            .unwrap();
            match confirm {
                Err(m2) => {
                    say!("violation: {}", m2);
                    first_violation = Some((path.display().to_string(), m2));
                }
                Ok(()) => {
                    say!(
                        "ERROR: shrunk case did not reproduce outside the library (flaky harness?): {}",
                        msg
                    );
                    write_evidence(&*prop, &args, &stats, 0, start.elapsed().as_secs_f64(), serde_json::json!({"flaky": msg}));
                    return 2;
                }
            }
        }
    }

    let wall = start.elapsed().as_secs_f64();
    let violations = if first_violation.is_some() { 1 } else { 0 };
    let mut samples_stats = stats;
    if samples_stats.samples.is_empty() {
        samples_stats.samples.push(serde_json::json!("no non-trivial sample recorded"));
    }
    write_evidence(
        &*prop,
        &args,
        &samples_stats,
        violations,
        wall,
        serde_json::json!({"regressions_replayed": regressions_run, "saved_fuzz_inputs_replayed": raw_replayed, "distilled_corpus_cases_replayed": distilled_replayed, "workers": workers}),
    );

    for (p, k, text) in &kf.known {
        if p == id {
            let hits = samples_stats.known_hits.get(k).copied().unwrap_or(0);
            say!("KNOWN-FINDING: property={} {} (key={}, hits this run: {})", id, text, k, hits);
        }
    }

    if let Some((path, _)) = first_violation {
        say!("VIOLATION property={} replay={}", id, path);
        return 1;
    }

    // generator health check
    for c in prop.required_classes(args.tier) {
        if samples_stats.classes.get(c).copied().unwrap_or(0) == 0 {
            say!(
                "INCONCLUSIVE property={}: generator health check failed, class '{}' was never produced",
                id, c
            );
            return 2;
        }
    }
    if samples_stats.nontrivial.len() < 2 {
        say!("INCONCLUSIVE property={}: fewer than 2 distinct non-trivial cases", id);
        return 2;
    }
    say!(
        "OK property={} tier={} seed={} evaluations={} distinct_nontrivial={} comparisons={} wall={:.1}s",
        id,
        args.tier.name(),
        args.seed,
        samples_stats.evaluations,
        samples_stats.nontrivial.len(),
        samples_stats.checks,
        wall
    );
    0
}

// ---------------------------------------------------------------------------------------------
// Coverage-guided mode for every property: structure-aware mutation of serialised cases.
//
// proptest's own byte-driven RNG (PassThrough) cannot be used for this: every `prop_oneof!`
// forks the RNG for the alternatives before the chosen one and a fork halves the remaining
// input, and rand's uniform sampling loops forever on an exhausted (all-zero) input. Instead
// the fuzzer's inputs are the JSON form of a case (the same form as a replay file's `case`),
// and a custom mutator edits them only with pieces that the property's own strategy produced:
// elements of the operation/event sequence are replaced, inserted, duplicated, swapped or
// deleted, top-level fields are replaced, always taking new material from a freshly generated
// donor case (ChaCha seeded by the fuzzer's mutation seed) or from another corpus entry
// (crossover). Every input therefore stays inside the domain the property-based tier draws
// from, while libFuzzer's coverage feedback over the canister code decides which are kept.
// ---------------------------------------------------------------------------------------------

pub fn fresh_case<C: std::fmt::Debug>(strat: &BoxedStrategy<C>, seed: u64, salt: &str) -> Option<C> {
    use proptest::strategy::{Strategy, ValueTree};
    let config = Config { cases: 1, failure_persistence: None, ..Config::default() };
    let rng = TestRng::from_seed(RngAlgorithm::ChaCha, &seed_bytes(seed, 0, salt));
    let mut runner = TestRunner::new_with_rng(config, rng);
    strat.new_tree(&mut runner).ok().map(|t| t.current())
}

struct Xs(u64);
impl Xs {
    fn next(&mut self) -> u64 {
        let mut x = self.0;
        x ^= x >> 12;
        x ^= x << 25;
        x ^= x >> 27;
        self.0 = x;
        x.wrapping_mul(0x2545F4914F6CDD1D)
    }
    fn below(&mut self, n: usize) -> usize {
        if n == 0 {
            0
        } else {
            ((self.next() >> 11) % n as u64) as usize
        }
    }
}

pub struct FuzzCtx<P: Property> {
    prop: P,
    strat: BoxedStrategy<P::Case>,
    keys: BTreeSet<String>,
    seqs: Vec<(&'static str, usize)>,
}

fn parse_case<C: DeserializeOwned>(data: &[u8]) -> Option<C> {
    let text = std::str::from_utf8(data).ok()?;
    if let Ok(rf) = serde_json::from_str::<ReplayFile<C>>(text) {
        return Some(rf.case);
    }
    serde_json::from_str::<C>(text).ok()
}

impl<P: Property> FuzzCtx<P> {
    pub fn new(prop: P) -> Self {
        let kf = load_known_findings();
        let keys = kf.known.iter().filter(|(p, _, _)| p == prop.id()).map(|(_, k, _)| k.clone()).collect();
        let strat = prop.strategy(Tier::Quick);
        let seqs = prop.fuzz_sequences();
        FuzzCtx { prop, strat, keys, seqs }
    }

    /// Runs the case the input holds. Some(message) iff it violates the property (beyond the
    /// listed known findings); inputs that are not a serialised case are ignored.
    pub fn one(&self, data: &[u8]) -> Option<String> {
        let case: P::Case = parse_case(data)?;
        judge(&self.prop, &self.keys, &case).1.err()
    }

    fn donor(&self, rng: &mut Xs) -> Option<serde_json::Value> {
        let c = fresh_case(&self.strat, rng.next(), self.prop.id())?;
        serde_json::to_value(&c).ok()
    }

    fn finish(&self, v: serde_json::Value, fallback: &[u8], max_size: usize) -> Vec<u8> {
        // only well-formed cases leave the mutator
        if let Ok(c) = serde_json::from_value::<P::Case>(v.clone()) {
            if self.prop.fuzz_admissible(&c) {
                let out = serde_json::to_vec(&v).unwrap();
                if out.len() <= max_size {
                    return out;
                }
            }
        }
        fallback.to_vec()
    }

    pub fn mutate(&self, data: &[u8], seed: u32, max_size: usize) -> Vec<u8> {
        let mut rng = Xs((seed as u64) << 17 | 0x9E37_79B9_7F4A_7C15);
        rng.next();
        let cur: Option<serde_json::Value> = parse_case::<P::Case>(data).and_then(|c| serde_json::to_value(&c).ok());
        let mut v = match cur {
            Some(v) => v,
            None => {
                // not a case (e.g. the empty input): start from a fresh one
                return match self.donor(&mut rng) {
                    Some(d) => self.finish(d, data, max_size),
                    None => data.to_vec(),
                };
            }
        };
        let edits = 1 + rng.below(3);
        for _ in 0..edits {
            let paths: Vec<(&'static str, usize)> = self.seqs.iter().copied().filter(|(p, _)| v.pointer(p).map(|a| a.is_array()).unwrap_or(false)).collect();
            // a donor that has the same shape (same enum variant) if one turns up in a few draws
            let mut donor = None;
            for _ in 0..6 {
                if let Some(d) = self.donor(&mut rng) {
                    let ok = paths.is_empty() || paths.iter().any(|(p, _)| d.pointer(p).map(|a| a.is_array()).unwrap_or(false));
                    let stop = ok;
                    donor = Some(d);
                    if stop {
                        break;
                    }
                }
            }
            let donor = match donor {
                Some(d) => d,
                None => break,
            };
            if paths.is_empty() || rng.below(40) == 0 {
                v = donor;
                continue;
            }
            let (p, cap) = paths[rng.below(paths.len())];
            let dseq: Vec<serde_json::Value> = donor.pointer(p).and_then(|a| a.as_array()).cloned().unwrap_or_default();
            let choice = rng.below(12);
            if choice == 11 {
                // replace one sibling field of the sequence (configuration, budgets, ...)
                let (parent, key) = match p.rfind('/') {
                    Some(i) => (&p[..i], &p[i + 1..]),
                    None => continue,
                };
                let dobj = donor.pointer(parent).and_then(|o| o.as_object()).cloned();
                if let (Some(obj), Some(dobj)) = (v.pointer_mut(parent).and_then(|o| o.as_object_mut()), dobj) {
                    let ks: Vec<String> = obj.keys().filter(|k| k.as_str() != key && dobj.contains_key(*k)).cloned().collect();
                    if !ks.is_empty() {
                        let k = &ks[rng.below(ks.len())];
                        obj.insert(k.clone(), dobj[k].clone());
                    }
                }
                continue;
            }
            let seq = match v.pointer_mut(p).and_then(|a| a.as_array_mut()) {
                Some(s) => s,
                None => continue,
            };
            let n = seq.len();
            match choice {
                0..=2 if !dseq.is_empty() && n > 0 => {
                    let i = rng.below(n);
                    seq[i] = dseq[rng.below(dseq.len())].clone();
                }
                3..=5 if !dseq.is_empty() && n < cap => {
                    // insertions favour the end: extend a history that reached something new
                    let i = if rng.below(2) == 0 { n } else { rng.below(n + 1) };
                    seq.insert(i, dseq[rng.below(dseq.len())].clone());
                }
                6 if n > 1 => {
                    seq.remove(rng.below(n));
                }
                7 if n > 0 && n < cap => {
                    let e = seq[rng.below(n)].clone();
                    seq.insert(rng.below(n + 1), e);
                }
                8 if n > 1 => {
                    let (a, b) = (rng.below(n), rng.below(n));
                    seq.swap(a, b);
                }
                9 if n > 1 && !dseq.is_empty() => {
                    let keep = 1 + rng.below(n - 1);
                    seq.truncate(keep);
                    let add = 1 + rng.below(4);
                    for _ in 0..add {
                        if seq.len() < cap {
                            seq.push(dseq[rng.below(dseq.len())].clone());
                        }
                    }
                }
                10 if !dseq.is_empty() => {
                    let add = 1 + rng.below(4);
                    for _ in 0..add {
                        if seq.len() < cap {
                            seq.push(dseq[rng.below(dseq.len())].clone());
                        }
                    }
                }
                _ => {}
            }
        }
        self.finish(v, data, max_size)
    }

    /// Head and sequence prefix of `a`, sequence suffix of `b`.
    pub fn crossover(&self, a: &[u8], b: &[u8], seed: u32, max_size: usize) -> Vec<u8> {
        let mut rng = Xs((seed as u64) << 13 | 0xD1B5_4A32_D192_ED03);
        rng.next();
        let va = parse_case::<P::Case>(a).and_then(|c| serde_json::to_value(&c).ok());
        let vb = parse_case::<P::Case>(b).and_then(|c| serde_json::to_value(&c).ok());
        let (mut va, vb) = match (va, vb) {
            (Some(x), Some(y)) => (x, y),
            _ => return a.to_vec(),
        };
        for (p, cap) in self.seqs.iter().copied() {
            let sb: Vec<serde_json::Value> = match vb.pointer(p).and_then(|x| x.as_array()) {
                Some(s) => s.clone(),
                None => continue,
            };
            if let Some(sa) = va.pointer_mut(p).and_then(|x| x.as_array_mut()) {
                if sa.is_empty() || sb.is_empty() {
                    continue;
                }
                let keep = 1 + rng.below(sa.len());
                let from = rng.below(sb.len());
                sa.truncate(keep);
                for e in &sb[from..] {
                    if sa.len() < cap {
                        sa.push(e.clone());
                    }
                }
                break;
            }
        }
        self.finish(va, a, max_size)
    }
}

/// `n` serialised cases drawn like the property-based tier draws them: the starting corpus.
pub fn fresh_corpus<P: Property>(prop: &P, seed: u64, n: usize) -> Vec<Vec<u8>> {
    let strat = prop.strategy(Tier::Quick);
    (0..n)
        .filter_map(|k| fresh_case(&strat, seed.wrapping_mul(1_000_003).wrapping_add(k as u64), prop.id()))
        .map(|c| serde_json::to_vec(&c).unwrap())
        .collect()
}

/// Greedy reduction of a failing serialised case found by the coverage-guided target (no value
/// tree exists for it): chunks of the sequences are deleted while the violation persists. Writes
/// the JSON replay file and confirms it from a fresh thread.
fn shrink_case_file<P: Property>(prop: Arc<P>, known_keys: BTreeSet<String>, path: &str, seed: u64) -> i32 {
    let id = prop.id();
    let bytes = std::fs::read(path).expect("cannot read replay file");
    let case: P::Case = match parse_case(&bytes) {
        Some(c) => c,
        None => {
            say!("ERROR: {} is not a serialised case of {}", path, id);
            return 2;
        }
    };
    let prop2 = prop.clone();
    let keys = known_keys.clone();
    let seqs = prop.fuzz_sequences();
    let res: Option<(P::Case, String)> = spawn_big(move || {
        crate::sut::install_panic_hook();
        let mut best_msg = match judge(&*prop2, &keys, &case).1 {
            Ok(()) => return None,
            Err(m) => m,
        };
        let mut best = serde_json::to_value(&case).unwrap();
        let mut budget = prop2.max_shrink_iters();
        for (p, _) in seqs.iter().copied() {
            let mut chunk = best.pointer(p).and_then(|a| a.as_array()).map(|a| a.len()).unwrap_or(0) / 2;
            while chunk >= 1 && budget > 0 {
                let mut i = 0;
                let mut progressed = false;
                loop {
                    let n = best.pointer(p).and_then(|a| a.as_array()).map(|a| a.len()).unwrap_or(0);
                    if i + chunk > n || n <= 1 || budget == 0 {
                        break;
                    }
                    let mut cand = best.clone();
                    if let Some(a) = cand.pointer_mut(p).and_then(|a| a.as_array_mut()) {
                        a.drain(i..i + chunk);
                        if a.is_empty() {
                            break;
                        }
                    }
                    budget -= 1;
                    let ok = serde_json::from_value::<P::Case>(cand.clone()).ok().and_then(|c| judge(&*prop2, &keys, &c).1.err());
                    match ok {
                        Some(m) => {
                            best = cand;
                            best_msg = m;
                            progressed = true;
                        }
                        None => i += chunk,
                    }
                }
                if !progressed || chunk == 1 {
                    chunk /= 2;
                }
            }
        }
        Some((serde_json::from_value(best).unwrap(), best_msg))
    })
    .join()
    .unwrap();
    match res {
        None => {
            say!("replay {}: property {} held", path, id);
            0
        }
        Some((case, msg)) => {
            let dir = verif_root().join("replays");
            let _ = std::fs::create_dir_all(&dir);
            let out = dir.join(format!("{}-fuzzcase-{:016x}.json", id, fnv(&bytes)));
            let rf = ReplayFile { property: id.to_string(), seed, note: msg.clone(), case: case.clone() };
            std::fs::write(&out, serde_json::to_string_pretty(&rf).unwrap()).unwrap();
            let keys = known_keys.clone();
            let confirm = spawn_big(move || {
                crate::sut::install_panic_hook();
                judge(&*prop, &keys, &case).1
            })
            .join()
            .unwrap();
            match confirm {
                Err(m2) => {
                    say!("violation: {}", m2);
                    say!("VIOLATION property={} replay={}", id, out.display());
                    1
                }
                Ok(()) => {
                    say!("ERROR: reduced case did not reproduce from a fresh thread (flaky harness?): {}", msg);
                    2
                }
            }
        }
    }
}
