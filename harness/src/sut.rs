//! Thin drivers around the real canister code (one canister per thread: all its state is
//! thread-local).
use crate::chain::Net;
use crate::model::H32;
use ic_btc_canister as can;
use ic_btc_canister::runtime::verif_hooks as hooks;
use ic_btc_interface::{
    Fees, Flag, GetBalanceRequest, GetBlockHeadersRequest, GetUtxosRequest, InitConfig,
    SetConfigRequest, UtxosFilterInRequest,
};
use ic_btc_types::Block as CBlock;
use std::cell::RefCell;
use std::panic::{catch_unwind, AssertUnwindSafe};

pub const NOW_SECS: u64 = 1_800_000_000;

thread_local! {
    static LAST_PANIC: RefCell<Option<String>> = const { RefCell::new(None) };
    static GUARD_DEPTH: RefCell<u32> = const { RefCell::new(0) };
}

pub fn install_panic_hook() {
    std::panic::set_hook(Box::new(|info| {
        let msg = format!("{}", info);
        if GUARD_DEPTH.with(|g| *g.borrow()) == 0 {
            // a panic of the harness itself: make it visible
            eprintln!("HARNESS PANIC: {}", msg);
        }
        LAST_PANIC.with(|p| *p.borrow_mut() = Some(msg));
    }));
}

pub fn last_panic() -> String {
    LAST_PANIC.with(|p| p.borrow().clone().unwrap_or_default())
}

/// Runs `f`, converting a panic into `Err(message)`.
pub fn guarded<R>(f: impl FnOnce() -> R) -> Result<R, String> {
    LAST_PANIC.with(|p| *p.borrow_mut() = None);
    GUARD_DEPTH.with(|g| *g.borrow_mut() += 1);
    let r = catch_unwind(AssertUnwindSafe(f));
    GUARD_DEPTH.with(|g| *g.borrow_mut() -= 1);
    r.map_err(|e| {
        let m = last_panic();
        if !m.is_empty() {
            m
        } else if let Some(s) = e.downcast_ref::<String>() {
            s.clone()
        } else if let Some(s) = e.downcast_ref::<&str>() {
            s.to_string()
        } else {
            "panic".to_string()
        }
    })
}

#[derive(Clone, Debug)]
pub struct SutConfig {
    pub net: Net,
    pub threshold: u32,
    pub api_access: Flag,
    pub sync_gate: Flag,
    pub lazy_fees: Flag,
    pub fees: Option<Fees>,
}

impl SutConfig {
    pub fn new(net: Net, threshold: u32) -> Self {
        SutConfig {
            net,
            threshold,
            api_access: Flag::Enabled,
            sync_gate: Flag::Disabled,
            lazy_fees: Flag::Enabled,
            fees: None,
        }
    }
}

/// Fresh canister: new stable memory, init, mock runtime reset.
pub fn reset(cfg: &SutConfig) {
    // `set_memory` installs a memory manager with 8 MiB buckets, which makes every fresh canister
    // touch ~60 MiB. Replace the manager by one with 64 KiB buckets over a fresh memory: only the
    // physical layout of stable memory differs.
    can::memory::set_memory(ic_stable_structures::DefaultMemoryImpl::default());
    can::memory::with_memory_manager_mut(|m| {
        *m = ic_stable_structures::memory_manager::MemoryManager::init_with_bucket_size(
            ic_stable_structures::DefaultMemoryImpl::default(),
            1,
        )
    });
    can::runtime::mock_time::set_mock_time_secs(NOW_SECS);
    hooks::set_performance_counter_step(0);
    hooks::performance_counter_reset();
    hooks::cycles_accepted_reset();
    hooks::set_cycles_available(None);
    hooks::set_fetch_handler(None);
    hooks::set_manual_fetch(false);
    hooks::take_requests();
    hooks::take_sent_transactions();
    can::runtime::set_successors_responses(vec![]);
    can::init(InitConfig {
        stability_threshold: Some(cfg.threshold as u128),
        network: Some(cfg.net.ic()),
        api_access: Some(cfg.api_access),
        disable_api_if_not_fully_synced: Some(cfg.sync_gate),
        lazily_evaluate_fee_percentiles: Some(cfg.lazy_fees),
        fees: cfg.fees.clone(),
        ..Default::default()
    });
}

pub fn set_time(secs: u64) {
    can::runtime::mock_time::set_mock_time_secs(secs);
}

/// Pushes a block into the unstable tree without header validation (how the repository's own
/// tests populate mainnet/testnet states), with an assigned difficulty.
pub fn push_unvalidated(block: &bitcoin::Block, diff: Option<u128>) -> Result<Result<(), String>, String> {
    let mut b = CBlock::new(block.clone());
    b.mock_difficulty = diff;
    guarded(|| {
        can::with_state_mut(|s| {
            can::unstable_blocks::push(&mut s.unstable_blocks, &s.utxos, b)
                .map_err(|e| format!("{:?}", e))
        })
    })
}

/// Inserts a block through full validation (`state::insert_block`).
pub fn insert_validated(block: &bitcoin::Block, diff: Option<u128>) -> Result<Result<(), String>, String> {
    let mut b = CBlock::new(block.clone());
    b.mock_difficulty = diff;
    guarded(|| {
        can::with_state_mut(|s| can::state::insert_block(s, b).map_err(|e| format!("{:?}", e)))
    })
}

#[derive(Clone, Copy, Debug, PartialEq, Eq)]
pub enum IngestResult {
    Paused,
    DoneWork,
    DoneNothing,
}

pub fn ingest_round() -> Result<IngestResult, String> {
    guarded(|| {
        can::with_state_mut(|s| match can::state::ingest_stable_blocks_into_utxoset(s) {
            can::types::Slicing::Paused(()) => IngestResult::Paused,
            can::types::Slicing::Done(true) => IngestResult::DoneWork,
            can::types::Slicing::Done(false) => IngestResult::DoneNothing,
        })
    })
}

/// Hashes of all blocks in the unstable tree; the first is the anchor.
pub fn tree_hashes() -> Vec<H32> {
    can::with_state(|s| {
        can::state::get_block_hashes(s)
            .iter()
            .map(|h| {
                let mut a = [0u8; 32];
                a.copy_from_slice(h.as_bytes());
                a
            })
            .collect()
    })
}

pub fn stable_height() -> u32 {
    can::with_state(|s| s.stable_height())
}

pub fn is_ingesting() -> bool {
    can::with_state(|s| s.utxos.ingesting_block.is_some())
}

pub fn set_threshold(t: u32) {
    can::set_config(SetConfigRequest {
        stability_threshold: Some(t as u128),
        ..Default::default()
    });
}

pub fn upgrade(arg: Option<SetConfigRequest>) -> Result<(), String> {
    guarded(|| {
        can::pre_upgrade();
        can::post_upgrade(arg);
    })
}

// ---- queries -------------------------------------------------------------------------------

#[derive(Clone, Debug, PartialEq, Eq)]
pub struct UtxosAnswer {
    pub utxos: Vec<((H32, u32), u64, u32)>,
    pub tip_hash: Vec<u8>,
    pub tip_height: u32,
    pub next_page: Option<Vec<u8>>,
}

pub type QResult<T> = Result<Result<T, String>, String>; // outer Err = panic/refusal

fn conv(r: ic_btc_interface::GetUtxosResponse) -> UtxosAnswer {
    UtxosAnswer {
        utxos: r
            .utxos
            .iter()
            .map(|u| {
                let mut t = [0u8; 32];
                t.copy_from_slice(u.outpoint.txid.as_ref());
                ((t, u.outpoint.vout), u.value, u.height)
            })
            .collect(),
        tip_hash: r.tip_block_hash.clone(),
        tip_height: r.tip_height,
        next_page: r.next_page.map(|p| p.into_vec()),
    }
}

#[derive(Clone, Debug, PartialEq, Eq)]
pub enum Filter {
    None,
    MinConf(u32),
    Page(Vec<u8>),
}

fn filter_req(f: &Filter) -> Option<UtxosFilterInRequest> {
    match f {
        Filter::None => None,
        Filter::MinConf(c) => Some(UtxosFilterInRequest::MinConfirmations(*c)),
        Filter::Page(p) => Some(UtxosFilterInRequest::Page(serde_bytes::ByteBuf::from(p.clone()))),
    }
}

pub fn get_utxos(net: Net, addr: &str, f: &Filter, update: bool) -> QResult<UtxosAnswer> {
    let req = GetUtxosRequest {
        address: addr.to_string(),
        network: net.in_request(),
        filter: filter_req(f),
    };
    hooks::performance_counter_reset();
    guarded(|| {
        let r = if update {
            can::get_utxos(req)
        } else {
            can::get_utxos_query(req)
        };
        r.map(conv).map_err(|e| format!("{:?}", e))
    })
}

pub fn get_utxos_limit(addr: &str, f: &Filter, limit: usize) -> QResult<UtxosAnswer> {
    let req = can::types::GetUtxosRequest {
        address: addr.to_string(),
        filter: match f {
            Filter::None => None,
            Filter::MinConf(c) => Some(ic_btc_interface::UtxosFilter::MinConfirmations(*c)),
            Filter::Page(p) => Some(ic_btc_interface::UtxosFilter::Page(
                serde_bytes::ByteBuf::from(p.clone()),
            )),
        },
    };
    guarded(|| {
        can::verif_get_utxos_with_limit(req, limit)
            .map(conv)
            .map_err(|e| format!("{:?}", e))
    })
}

/// Follows next_page until none remains. `limit` None = the real endpoint.
pub fn get_utxos_all_pages(
    net: Net,
    addr: &str,
    f: &Filter,
    limit: Option<usize>,
) -> QResult<(UtxosAnswer, usize)> {
    let first = match limit {
        None => get_utxos(net, addr, f, false),
        Some(l) => get_utxos_limit(addr, f, l),
    }?;
    let mut first = match first {
        Ok(a) => a,
        Err(e) => return Ok(Err(e)),
    };
    let mut pages = 1;
    let mut next = first.next_page.clone();
    while let Some(p) = next {
        let r = match limit {
            None => get_utxos(net, addr, &Filter::Page(p), false),
            Some(l) => get_utxos_limit(addr, &Filter::Page(p), l),
        }?;
        let r = match r {
            Ok(a) => a,
            Err(e) => return Ok(Err(format!("page {}: {}", pages, e))),
        };
        if r.tip_hash != first.tip_hash || r.tip_height != first.tip_height {
            return Ok(Err(format!(
                "PAGE-TIP-MISMATCH page {} names another tip",
                pages
            )));
        }
        pages += 1;
        first.utxos.extend(r.utxos);
        next = r.next_page;
        if pages > 100_000 {
            return Ok(Err("PAGE-LOOP".to_string()));
        }
    }
    first.next_page = None;
    Ok(Ok((first, pages)))
}

pub fn get_balance(net: Net, addr: &str, c: Option<u32>, update: bool) -> QResult<u64> {
    let req = GetBalanceRequest {
        address: addr.to_string(),
        network: net.in_request(),
        min_confirmations: c,
    };
    hooks::performance_counter_reset();
    guarded(|| {
        let r = if update {
            can::get_balance(req)
        } else {
            can::get_balance_query(req)
        };
        r.map_err(|e| format!("{:?}", e))
    })
}

#[derive(Clone, Debug, PartialEq, Eq)]
pub struct HeadersAnswer {
    pub tip_height: u32,
    pub headers: Vec<Vec<u8>>,
}

pub fn get_block_headers(net: Net, start: u32, end: Option<u32>) -> QResult<HeadersAnswer> {
    let req = GetBlockHeadersRequest {
        start_height: start,
        end_height: end,
        network: net.in_request(),
    };
    hooks::performance_counter_reset();
    guarded(|| {
        can::get_block_headers(req)
            .map(|r| HeadersAnswer {
                tip_height: r.tip_height,
                headers: r.block_headers,
            })
            .map_err(|e| format!("{:?}", e))
    })
}

#[derive(Clone, Debug, PartialEq, Eq)]
pub struct Info {
    pub height: u32,
    pub hash: Vec<u8>,
    pub timestamp: u32,
    pub difficulty: u128,
    pub utxos_length: u64,
}

pub fn info() -> Result<Info, String> {
    guarded(|| {
        let i = can::get_blockchain_info();
        Info {
            height: i.height,
            hash: i.block_hash,
            timestamp: i.timestamp,
            difficulty: i.difficulty,
            utxos_length: i.utxos_length,
        }
    })
}

pub fn fee_percentiles(net: Net) -> Result<Vec<u64>, String> {
    hooks::performance_counter_reset();
    guarded(|| {
        can::get_current_fee_percentiles(ic_btc_interface::GetCurrentFeePercentilesRequest {
            network: net.in_request(),
        })
    })
}

/// The metrics endpoint (`http_request` with the given url), parsed: status code and the sample
/// lines `name{labels} value [timestamp]` as (name-with-labels, value). Runs natively through the
/// `verif_hooks` stand-ins for the three system calls in `api/metrics.rs`.
pub fn http(url: &str) -> Result<(u16, Vec<(String, f64)>), String> {
    guarded(|| {
        let r = can::http_request(can::types::HttpRequest {
            method: "GET".to_string(),
            url: url.to_string(),
            headers: vec![],
            body: serde_bytes::ByteBuf::from(vec![]),
        });
        let mut out = vec![];
        if r.status_code == 200 {
            for line in String::from_utf8_lossy(&r.body).lines() {
                if line.starts_with('#') || line.is_empty() {
                    continue;
                }
                let mut it = line.split(' ');
                let (Some(name), Some(val)) = (it.next(), it.next()) else { continue };
                if let Ok(v) = val.parse::<f64>() {
                    out.push((name.to_string(), v));
                }
            }
        }
        (r.status_code, out)
    })
}

pub fn metric(m: &[(String, f64)], name: &str) -> Option<f64> {
    m.iter().find(|(n, _)| n == name).map(|(_, v)| *v)
}
