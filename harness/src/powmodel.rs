//! Reference implementation of the Bitcoin consensus header rules (after Bitcoin Core's
//! pow.cpp / validation.cpp), with big integers. Independent of rust-bitcoin's pow code.
use crate::chain::Net;
use num_bigint::BigUint;

pub const INTERVAL: u32 = 2016;
pub const TARGET_TIMESPAN: i64 = 14 * 24 * 60 * 60;
pub const SPACING: u32 = 600;

#[derive(Clone, Copy, Debug, PartialEq, Eq)]
pub struct Hdr {
    pub bits: u32,
    pub time: u32,
}

/// arith_uint256::SetCompact (value part).
pub fn from_compact(bits: u32) -> BigUint {
    let size = bits >> 24;
    let word = bits & 0x007f_ffff;
    if size <= 3 {
        BigUint::from(word >> (8 * (3 - size)))
    } else {
        BigUint::from(word) << (8 * (size - 3)) as usize
    }
}

/// (negative, overflow) flags of arith_uint256::SetCompact.
pub fn compact_flags(bits: u32) -> (bool, bool) {
    let size = bits >> 24;
    let word = bits & 0x007f_ffff;
    let negative = word != 0 && (bits & 0x0080_0000) != 0;
    let overflow = word != 0 && (size > 34 || (word > 0xff && size > 33) || (word > 0xffff && size > 32));
    (negative, overflow)
}

/// CheckProofOfWork's conditions on the declared target itself.
pub fn declared_target_ok(net: Net, bits: u32) -> bool {
    let (neg, ovf) = compact_flags(bits);
    let t = from_compact(bits);
    !neg && !ovf && t != BigUint::from(0u8) && t <= pow_limit(net)
}

/// arith_uint256::GetCompact.
pub fn to_compact(v: &BigUint) -> u32 {
    let mut size = ((v.bits() + 7) / 8) as u32;
    let mut compact: u32 = if size <= 3 {
        let low = v.iter_u64_digits().next().unwrap_or(0);
        (low << (8 * (3 - size))) as u32
    } else {
        let bn = v >> (8 * (size - 3)) as usize;
        bn.iter_u32_digits().next().unwrap_or(0)
    };
    if compact & 0x0080_0000 != 0 {
        compact >>= 8;
        size += 1;
    }
    compact | (size << 24)
}

/// consensus.powLimit
pub fn pow_limit(net: Net) -> BigUint {
    match net {
        // 00000000ffffffffffffffffffffffffffffffffffffffffffffffffffffffff
        Net::Mainnet | Net::Testnet => (BigUint::from(1u8) << 224usize) - 1u8,
        // 7fffffffffffffffffffffffffffffffffffffffffffffffffffffffffffffff
        Net::Regtest => (BigUint::from(1u8) << 255usize) - 1u8,
    }
}

pub fn allow_min_difficulty(net: Net) -> bool {
    matches!(net, Net::Testnet | Net::Regtest)
}
pub fn no_retargeting(net: Net) -> bool {
    net == Net::Regtest
}
pub fn enforce_bip94(net: Net) -> bool {
    net == Net::Testnet // the canister's "testnet" is testnet4
}

/// CalculateNextWorkRequired: returns compact bits.
pub fn calculate_next_work(net: Net, base_bits: u32, last_time: u32, first_time: u32) -> u32 {
    let mut span = last_time as i64 - first_time as i64;
    if span < TARGET_TIMESPAN / 4 {
        span = TARGET_TIMESPAN / 4;
    }
    if span > TARGET_TIMESPAN * 4 {
        span = TARGET_TIMESPAN * 4;
    }
    let limit = pow_limit(net);
    let mut new = from_compact(base_bits);
    new *= BigUint::from(span as u64);
    new /= BigUint::from(TARGET_TIMESPAN as u64);
    if new > limit {
        new = limit;
    }
    to_compact(&new)
}

/// GetNextWorkRequired for a header with timestamp `time` on top of the block at
/// `prev_height`; `at(h)` returns the header at height h of that chain (h <= prev_height).
pub fn next_work_required(net: Net, prev_height: u32, time: u32, at: &dyn Fn(u32) -> Hdr) -> u32 {
    next_work_required_ext(net, enforce_bip94(net), prev_height, time, at)
}

/// Same with an explicit BIP94 switch (`bip94 = false` on the testnet parameters = testnet3).
pub fn next_work_required_ext(net: Net, bip94: bool, prev_height: u32, time: u32, at: &dyn Fn(u32) -> Hdr) -> u32 {
    let limit_bits = to_compact(&pow_limit(net));
    let prev = at(prev_height);
    let height = prev_height + 1;
    if height % INTERVAL != 0 {
        if allow_min_difficulty(net) {
            if time as u64 > prev.time as u64 + 2 * SPACING as u64 {
                return limit_bits;
            }
            let mut h = prev_height;
            loop {
                let cur = at(h);
                if h > 0 && h % INTERVAL != 0 && cur.bits == limit_bits {
                    h -= 1;
                } else {
                    return cur.bits;
                }
            }
        }
        return prev.bits;
    }
    if no_retargeting(net) {
        return prev.bits;
    }
    let first = at(height - INTERVAL);
    let base = if bip94 { first.bits } else { prev.bits };
    calculate_next_work(net, base, prev.time, first.time)
}

/// Median of the up to 11 timestamps ending at `prev_height`.
pub fn median_time_past(prev_height: u32, at: &dyn Fn(u32) -> Hdr) -> u32 {
    let mut times = vec![];
    let mut h = prev_height as i64;
    while times.len() < 11 && h >= 0 {
        times.push(at(h as u32).time);
        h -= 1;
    }
    times.sort();
    times[times.len() / 2]
}

pub fn biguint_from_be(bytes: &[u8]) -> BigUint {
    BigUint::from_bytes_be(bytes)
}

#[cfg(test)]
mod tests {
    use super::*;
    #[test]
    fn compact_roundtrip_examples() {
        assert_eq!(to_compact(&from_compact(0x1d00ffff)), 0x1d00ffff);
        assert_eq!(to_compact(&pow_limit(Net::Mainnet)), 0x1d00ffff);
        assert_eq!(to_compact(&pow_limit(Net::Regtest)), 0x207fffff);
        assert_eq!(to_compact(&from_compact(0x170e0408)), 0x170e0408);
    }
    #[test]
    fn mainnet_retarget_fixture() {
        // Block 705600 (bits 0x170e0408 at 705599: 0x170e2632?). Use the well known first
        // retarget: blocks 0..2015 at 0x1d00ffff with a 2-week+ span stay at the limit.
        let bits = calculate_next_work(Net::Mainnet, 0x1d00ffff, 1233061996, 1231006505);
        assert_eq!(bits, 0x1d00ffff);
        // Block 32256: first difficulty increase: 0x1d00ffff -> 0x1d00d86a
        let bits = calculate_next_work(Net::Mainnet, 0x1d00ffff, 1262152739, 1261130161);
        assert_eq!(bits, 0x1d00d86a);
    }
}
