//! The canister prints to stdout natively. Re-point fd 1 to /dev/null and report through a saved
//! duplicate of the original stdout.
use std::io::Write;
use std::os::unix::io::FromRawFd;
use std::sync::Mutex;
use std::sync::OnceLock;

static REAL_OUT: OnceLock<Mutex<std::fs::File>> = OnceLock::new();

pub fn install() {
    REAL_OUT.get_or_init(|| unsafe {
        let saved = libc::dup(1);
        assert!(saved >= 0);
        let keep_noise = std::env::var("VP_NOISE").is_ok();
        if !keep_noise {
            let devnull = libc::open(b"/dev/null\0".as_ptr() as *const libc::c_char, libc::O_WRONLY);
            assert!(devnull >= 0);
            libc::dup2(devnull, 1);
            libc::close(devnull);
        }
        Mutex::new(std::fs::File::from_raw_fd(saved))
    });
}

/// Prints a line to the real stdout.
pub fn out(line: &str) {
    let lock = REAL_OUT.get().expect("gag not installed");
    let mut f = lock.lock().unwrap();
    let _ = writeln!(f, "{}", line);
    let _ = f.flush();
}

#[macro_export]
macro_rules! say {
    ($($arg:tt)*) => { $crate::gag::out(&format!($($arg)*)) };
}
