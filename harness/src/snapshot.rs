//! The observable snapshot: every query answer a user can obtain, as plain comparable data.
use crate::hist::World;
use crate::sut::{self, Filter};
use ic_btc_canister as can;
use std::collections::BTreeMap;

pub fn err_class(e: &str) -> String {
    for k in [
        "MalformedAddress",
        "AddressForWrongNetwork",
        "MinConfirmationsTooLarge",
        "UnknownTipBlockHash",
        "MalformedPage",
        "StartHeightDoesNotExist",
        "EndHeightDoesNotExist",
        "StartHeightLargerThanEndHeight",
    ] {
        if e.contains(k) {
            return k.to_string();
        }
    }
    format!("other:{}", &e[..e.len().min(40)])
}

type Key = (String, Option<u32>);

#[derive(Clone, Debug, PartialEq, Eq)]
pub struct Snapshot {
    pub config: String,
    pub info: String,
    pub utxos_length: u64,
    pub utxos: BTreeMap<Key, Result<(Vec<u8>, u32, Vec<((crate::model::H32, u32), u64, u32)>), String>>,
    pub balances: BTreeMap<Key, Result<u64, String>>,
    pub headers: BTreeMap<(u32, Option<u32>), Result<(u32, Vec<Vec<u8>>), String>>,
    pub fee_cache: Option<(Vec<u8>, Vec<u64>)>,
    pub counters: (u64, u64, u64, u64),
    /// Gauges of the metrics endpoint that are functions of the tree, the configuration and the
    /// error counters (so they must be invariant wherever the other answers are).
    pub metrics: Vec<(String, String)>,
    /// Raw sizes of the stable UTXO set as reported by the metrics endpoint (they move while a
    /// block is being ingested in slices) and its `is_synced` gauge (announced headers can arrive at
    /// different moments in twin runs): `diff` does not compare them; C09 does across an upgrade.
    pub metrics_sizes: Vec<(String, String)>,
    pub traps: Vec<String>,
}

pub const TREE_GAUGES: [&str; 11] = [
    "main_chain_height",
    "stable_height",
    "anchor_difficulty",
    "unstable_blocks_num_tips",
    "unstable_blocks_total",
    "unstable_blocks_depth",
    "api_access{flag=\"enabled\"}",
    "num_get_successors_rejects",
    "num_block_deserialize_errors",
    "num_insert_block_errors",
    "send_transaction_count",
];
pub const SIZE_GAUGES: [&str; 3] = ["utxos_length", "address_utxos_length", "is_synced"];

pub fn take(w: &World) -> Snapshot {
    let net = w.cfg.net;
    let mut traps = vec![];
    let config = format!("{:?}", can::get_config());
    let (info, utxos_length) = match sut::info() {
        Ok(i) => (format!("{}@{} ts={} diff={}", hex::encode(&i.hash), i.height, i.timestamp, i.difficulty), i.utxos_length),
        Err(p) => {
            traps.push(format!("get_blockchain_info: {p}"));
            (String::new(), 0)
        }
    };
    let len = w.model.best_chain().len() as u32;
    let tip = w.model.blocks[w.model.best_tip()].height;
    let mut utxos = BTreeMap::new();
    let mut balances = BTreeMap::new();
    let mut cs: Vec<Option<u32>> = vec![None];
    cs.extend((0..=len + 1).map(Some));
    for a in w.distinct_addresses() {
        for c in &cs {
            let f = match c {
                None => Filter::None,
                Some(c) => Filter::MinConf(*c),
            };
            match sut::get_utxos_all_pages(net, &a, &f, Some(3)) {
                Ok(Ok((ans, _))) => {
                    let mut u = ans.utxos.clone();
                    u.sort();
                    utxos.insert((a.clone(), *c), Ok((ans.tip_hash, ans.tip_height, u)));
                }
                Ok(Err(e)) => {
                    utxos.insert((a.clone(), *c), Err(err_class(&e)));
                }
                Err(p) => traps.push(format!("get_utxos({a},{c:?}): {p}")),
            }
            match sut::get_balance(net, &a, *c, false) {
                Ok(Ok(b)) => {
                    balances.insert((a.clone(), *c), Ok(b));
                }
                Ok(Err(e)) => {
                    balances.insert((a.clone(), *c), Err(err_class(&e)));
                }
                Err(p) => traps.push(format!("get_balance({a},{c:?}): {p}")),
            }
        }
    }
    let mut headers = BTreeMap::new();
    let mut reqs: Vec<(u32, Option<u32>)> = vec![];
    if tip <= 7 {
        for s in 0..=tip + 1 {
            reqs.push((s, None));
            for e in s.saturating_sub(1)..=tip + 1 {
                reqs.push((s, Some(e)));
            }
        }
    } else {
        let ah = w.model.anchor_height();
        for s in [0, ah.saturating_sub(1), ah, ah + 1, tip, tip + 1] {
            reqs.push((s, None));
            for e in [ah.saturating_sub(1), ah, ah + 1, tip, tip + 1] {
                reqs.push((s, Some(e)));
            }
        }
    }
    for (s, e) in reqs {
        match sut::get_block_headers(net, s, e) {
            Ok(Ok(h)) => {
                headers.insert((s, e), Ok((h.tip_height, h.headers)));
            }
            Ok(Err(er)) => {
                headers.insert((s, e), Err(err_class(&er)));
            }
            Err(p) => traps.push(format!("get_block_headers({s},{e:?}): {p}")),
        }
    }
    let (fee_cache, counters) = can::with_state(|s| {
        (
            s.fee_percentiles_cache.as_ref().map(|c| (c.tip_block_hash.to_vec(), c.fee_percentiles.clone())),
            (
                s.syncing_state.num_get_successors_rejects,
                s.syncing_state.num_block_deserialize_errors,
                s.syncing_state.num_insert_block_errors,
                s.metrics.send_transaction_count,
            ),
        )
    });
    let (mut metrics, mut metrics_sizes) = (vec![], vec![]);
    match sut::http("/metrics") {
        Ok((200, m)) => {
            for g in TREE_GAUGES {
                metrics.push((g.to_string(), format!("{:?}", sut::metric(&m, g))));
            }
            for g in SIZE_GAUGES {
                metrics_sizes.push((g.to_string(), format!("{:?}", sut::metric(&m, g))));
            }
        }
        Ok((code, _)) => traps.push(format!("the metrics endpoint answered with status {code}")),
        Err(p) => traps.push(format!("metrics endpoint: {p}")),
    }
    Snapshot { config, info, utxos_length, utxos, balances, headers, fee_cache, counters, metrics, metrics_sizes, traps }
}

/// First difference between two snapshots, if any. `ignore_counters` masks the error counters,
/// `ignore_fee_cache` masks the stored percentiles (which are refreshed at the end of a
/// heartbeat).
pub fn diff(a: &Snapshot, b: &Snapshot, ignore_counters: bool, ignore_fee_cache: bool, ignore_utxos_length: bool) -> Option<String> {
    if !b.traps.is_empty() {
        return Some(format!("a query trapped: {}", b.traps[0]));
    }
    if !a.traps.is_empty() {
        return Some(format!("a query trapped: {}", a.traps[0]));
    }
    if a.config != b.config {
        return Some(format!("get_config changed: {} -> {}", a.config, b.config));
    }
    if a.info != b.info {
        return Some(format!("get_blockchain_info changed: {} -> {}", a.info, b.info));
    }
    if !ignore_utxos_length && a.utxos_length != b.utxos_length {
        return Some(format!("get_blockchain_info.utxos_length changed: {} -> {}", a.utxos_length, b.utxos_length));
    }
    for (k, v) in &a.utxos {
        if b.utxos.get(k) != Some(v) {
            return Some(format!("get_utxos{:?} changed: {:?} -> {:?}", k, summarize_utxos(v), b.utxos.get(k).map(summarize_utxos)));
        }
    }
    if a.utxos.len() != b.utxos.len() {
        return Some("the set of answered get_utxos requests changed".to_string());
    }
    for (k, v) in &a.balances {
        if b.balances.get(k) != Some(v) {
            return Some(format!("get_balance{:?} changed: {:?} -> {:?}", k, v, b.balances.get(k)));
        }
    }
    for (k, v) in &a.headers {
        if b.headers.get(k) != Some(v) {
            return Some(format!(
                "get_block_headers{:?} changed: {:?} -> {:?}",
                k,
                v.as_ref().map(|(t, h)| (t, h.len())),
                b.headers.get(k).map(|r| r.as_ref().map(|(t, h)| (*t, h.len())))
            ));
        }
    }
    if a.headers.len() != b.headers.len() {
        return Some("the set of answered get_block_headers requests changed".to_string());
    }
    if !ignore_fee_cache && a.fee_cache != b.fee_cache {
        return Some("the stored fee percentiles changed".to_string());
    }
    for ((k, va), (_, vb)) in a.metrics.iter().zip(b.metrics.iter()) {
        if va != vb && !(ignore_counters && (k.starts_with("num_") || k == "send_transaction_count")) {
            return Some(format!("metrics endpoint: {k} changed: {va} -> {vb}"));
        }
    }
    if !ignore_counters && a.counters != b.counters {
        return Some(format!("counters changed: {:?} -> {:?}", a.counters, b.counters));
    }
    None
}

#[allow(clippy::type_complexity)]
fn summarize_utxos(v: &Result<(Vec<u8>, u32, Vec<((crate::model::H32, u32), u64, u32)>), String>) -> String {
    match v {
        Ok((h, ht, u)) => format!("tip {}@{} {} utxos sum {}", hex::encode(&h[..4.min(h.len())]), ht, u.len(), u.iter().map(|x| x.1).sum::<u64>()),
        Err(e) => format!("Err({e})"),
    }
}
