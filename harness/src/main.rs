
use vp::engine::{run_property, RunArgs, Tier};
use vp::{gag, sut};

fn usage() -> ! {
    eprintln!("usage: vp <Cxx> [--tier quick|thorough] [--replay FILE] [--shrink-case FILE] [--emit-corpus DIR N] [--seed N] [--workers N] [--cases N]");
    std::process::exit(2)
}

fn main() {
    let argv: Vec<String> = std::env::args().collect();
    if argv.len() < 2 {
        usage();
    }
    let id = argv[1].clone();
    let mut tier = match std::env::var("VERIF_TIER").as_deref() {
        Ok("thorough") => Tier::Thorough,
        _ => Tier::Quick,
    };
    let mut seed: u64 = std::env::var("VERIF_SEED")
        .ok()
        .and_then(|s| s.parse::<i128>().ok())
        .map(|v| v as u64)
        .unwrap_or(1);
    let mut replay = None;
    let mut shrink_case = None;
    let mut emit_corpus = None;
    let mut workers = std::thread::available_parallelism().map(|n| n.get()).unwrap_or(8).min(16);
    let mut cases_override = None;
    let mut i = 2;
    while i < argv.len() {
        match argv[i].as_str() {
            "--tier" => {
                i += 1;
                tier = match argv.get(i).map(|s| s.as_str()) {
                    Some("quick") => Tier::Quick,
                    Some("thorough") => Tier::Thorough,
                    _ => usage(),
                };
            }
            "--replay" => {
                i += 1;
                replay = Some(argv.get(i).cloned().unwrap_or_else(|| usage()));
            }
            "--shrink-case" => {
                i += 1;
                shrink_case = Some(argv.get(i).cloned().unwrap_or_else(|| usage()));
            }
            "--emit-corpus" => {
                let dir = argv.get(i + 1).cloned().unwrap_or_else(|| usage());
                let n: usize = argv.get(i + 2).and_then(|s| s.parse().ok()).unwrap_or_else(|| usage());
                emit_corpus = Some((dir, n));
                i += 2;
            }
            "--seed" => {
                i += 1;
                seed = argv.get(i).and_then(|s| s.parse().ok()).unwrap_or_else(|| usage());
            }
            "--workers" => {
                i += 1;
                workers = argv.get(i).and_then(|s| s.parse().ok()).unwrap_or_else(|| usage());
            }
            "--cases" => {
                i += 1;
                cases_override = Some(argv.get(i).and_then(|s| s.parse().ok()).unwrap_or_else(|| usage()));
            }
            _ => usage(),
        }
        i += 1;
    }
    gag::install();
    sut::install_panic_hook();
    let args = RunArgs {
        tier,
        seed,
        replay,
        shrink_case,
        emit_corpus,
        workers,
        cases_override,
    };
    let code = vp::for_property!(id.as_str(), p => run_property(p, args), {
        eprintln!("unknown property {}", id);
        2
    });
    std::process::exit(code);
}
