
use vp::engine::{run_property, RunArgs, Tier};
use vp::{gag, props, sut};

fn usage() -> ! {
    eprintln!("usage: vp <Cxx> [--tier quick|thorough] [--replay FILE] [--seed N] [--workers N] [--cases N]");
    std::process::exit(2)
}

fn main() {
    let argv: Vec<String> = std::env::args().collect();
    if argv.len() < 2 {
        usage();
    }
    let id = argv[1].clone();
    let mut tier = match std::env::var("VERIF_TIER").as_deref() {
        Ok("thorough") => Tier::Thorough,
        _ => Tier::Quick,
    };
    let mut seed: u64 = std::env::var("VERIF_SEED")
        .ok()
        .and_then(|s| s.parse::<i128>().ok())
        .map(|v| v as u64)
        .unwrap_or(1);
    let mut replay = None;
    let mut workers = std::thread::available_parallelism().map(|n| n.get()).unwrap_or(8).min(16);
    let mut cases_override = None;
    let mut i = 2;
    while i < argv.len() {
        match argv[i].as_str() {
            "--tier" => {
                i += 1;
                tier = match argv.get(i).map(|s| s.as_str()) {
                    Some("quick") => Tier::Quick,
                    Some("thorough") => Tier::Thorough,
                    _ => usage(),
                };
            }
            "--replay" => {
                i += 1;
                replay = Some(argv.get(i).cloned().unwrap_or_else(|| usage()));
            }
            "--seed" => {
                i += 1;
                seed = argv.get(i).and_then(|s| s.parse().ok()).unwrap_or_else(|| usage());
            }
            "--workers" => {
                i += 1;
                workers = argv.get(i).and_then(|s| s.parse().ok()).unwrap_or_else(|| usage());
            }
            "--cases" => {
                i += 1;
                cases_override = Some(argv.get(i).and_then(|s| s.parse().ok()).unwrap_or_else(|| usage()));
            }
            _ => usage(),
        }
        i += 1;
    }
    gag::install();
    sut::install_panic_hook();
    let args = RunArgs {
        tier,
        seed,
        replay,
        workers,
        cases_override,
    };
    let code = match id.as_str() {
        "C01" => run_property(props::c01::C01, args),
        "C02" => run_property(props::c02::C02, args),
        "C03" => run_property(props::c03::C03, args),
        "C04" => run_property(props::c04::C04, args),
        "C05" => run_property(props::c05::C05, args),
        "C06" => run_property(props::c06::C06, args),
        "C07" => run_property(props::c07::C07, args),
        "C08" => run_property(props::c08::C08, args),
        "C09" => run_property(props::c09::C09, args),
        "C10" => run_property(props::c10::C10, args),
        "C11" => run_property(props::c11::C11, args),
        "C12" => run_property(props::c12::C12, args),
        "C13" => run_property(props::c13::C13, args),
        "C14" => run_property(props::c14::C14, args),
        "C15" => run_property(props::c15::C15, args),
        "C16" => run_property(props::c16::C16, args),
        "C17" => run_property(props::c17::C17, args),
        "C18" => run_property(props::c18::C18, args),
        "C19" => run_property(props::c19::C19, args),
        "C20" => run_property(props::c20::C20, args),
        _ => {
            eprintln!("unknown property {}", id);
            2
        }
    };
    std::process::exit(code);
}
