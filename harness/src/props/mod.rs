pub mod c01;
pub mod c02;
pub mod c03;
pub mod c04;
pub mod c05;
pub mod common;
pub mod c07;
pub mod c06;
pub mod c15;
pub mod c20;
pub mod c19;
pub mod c16;
pub mod c17;
pub mod c18;
pub mod c11;
pub mod c12;
pub mod c08;
pub mod c09;
pub mod c13;
pub mod c10;
pub mod c14;

/// Dispatch on a property id: binds the property's (unit) struct to `$p` in `$body`.
#[macro_export]
macro_rules! for_property {
    ($id:expr, $p:ident => $body:expr, $else:expr) => {
        match $id {
            "C01" => { let $p = $crate::props::c01::C01; $body }
            "C02" => { let $p = $crate::props::c02::C02; $body }
            "C03" => { let $p = $crate::props::c03::C03; $body }
            "C04" => { let $p = $crate::props::c04::C04; $body }
            "C05" => { let $p = $crate::props::c05::C05; $body }
            "C06" => { let $p = $crate::props::c06::C06; $body }
            "C07" => { let $p = $crate::props::c07::C07; $body }
            "C08" => { let $p = $crate::props::c08::C08; $body }
            "C09" => { let $p = $crate::props::c09::C09; $body }
            "C10" => { let $p = $crate::props::c10::C10; $body }
            "C11" => { let $p = $crate::props::c11::C11; $body }
            "C12" => { let $p = $crate::props::c12::C12; $body }
            "C13" => { let $p = $crate::props::c13::C13; $body }
            "C14" => { let $p = $crate::props::c14::C14; $body }
            "C15" => { let $p = $crate::props::c15::C15; $body }
            "C16" => { let $p = $crate::props::c16::C16; $body }
            "C17" => { let $p = $crate::props::c17::C17; $body }
            "C18" => { let $p = $crate::props::c18::C18; $body }
            "C19" => { let $p = $crate::props::c19::C19; $body }
            "C20" => { let $p = $crate::props::c20::C20; $body }
            _ => $else,
        }
    };
}

thread_local! {
    static FUZZ_ENTRY: std::cell::RefCell<Option<Box<dyn Fn(&[u8]) -> Option<String>>>> = const { std::cell::RefCell::new(None) };
}

/// Entry of the generic coverage-guided target: the property is chosen by the environment
/// variable VP_FUZZ_PROP; returns Some(message) on a violation.
pub fn fuzz_case_entry(data: &[u8]) -> Option<String> {
    FUZZ_ENTRY.with(|cell| {
        if cell.borrow().is_none() {
            let id = std::env::var("VP_FUZZ_PROP").expect("VP_FUZZ_PROP must name the property");
            let f: Box<dyn Fn(&[u8]) -> Option<String>> = for_property!(id.as_str(), p => {
                let ctx = crate::engine::FuzzCtx::new(p);
                Box::new(move |d: &[u8]| ctx.one(d))
            }, panic!("unknown property {}", id));
            *cell.borrow_mut() = Some(f);
        }
        (cell.borrow().as_ref().unwrap())(data)
    })
}
