pub mod c01;
pub mod c02;
pub mod c03;
pub mod c04;
pub mod c05;
pub mod common;
pub mod c07;
pub mod c06;
pub mod c15;
pub mod c20;
pub mod c19;
pub mod c16;
pub mod c17;
pub mod c18;
pub mod c11;
pub mod c12;
pub mod c08;
pub mod c09;
pub mod c13;
pub mod c10;
pub mod c14;

/// Dispatch on a property id: binds the property's (unit) struct to `$p` in `$body`.
#[macro_export]
macro_rules! for_property {
    ($id:expr, $p:ident => $body:expr, $else:expr) => {
        match $id {
            "C01" => { let $p = $crate::props::c01::C01; $body }
            "C02" => { let $p = $crate::props::c02::C02; $body }
            "C03" => { let $p = $crate::props::c03::C03; $body }
            "C04" => { let $p = $crate::props::c04::C04; $body }
            "C05" => { let $p = $crate::props::c05::C05; $body }
            "C06" => { let $p = $crate::props::c06::C06; $body }
            "C07" => { let $p = $crate::props::c07::C07; $body }
            "C08" => { let $p = $crate::props::c08::C08; $body }
            "C09" => { let $p = $crate::props::c09::C09; $body }
            "C10" => { let $p = $crate::props::c10::C10; $body }
            "C11" => { let $p = $crate::props::c11::C11; $body }
            "C12" => { let $p = $crate::props::c12::C12; $body }
            "C13" => { let $p = $crate::props::c13::C13; $body }
            "C14" => { let $p = $crate::props::c14::C14; $body }
            "C15" => { let $p = $crate::props::c15::C15; $body }
            "C16" => { let $p = $crate::props::c16::C16; $body }
            "C17" => { let $p = $crate::props::c17::C17; $body }
            "C18" => { let $p = $crate::props::c18::C18; $body }
            "C19" => { let $p = $crate::props::c19::C19; $body }
            "C20" => { let $p = $crate::props::c20::C20; $body }
            _ => $else,
        }
    };
}

/// Object-safe face of `engine::FuzzCtx` for the generic coverage-guided target.
pub trait FuzzFace {
    fn one(&self, data: &[u8]) -> Option<String>;
    fn mutate(&self, data: &[u8], seed: u32, max_size: usize) -> Vec<u8>;
    fn crossover(&self, a: &[u8], b: &[u8], seed: u32, max_size: usize) -> Vec<u8>;
}

impl<P: crate::engine::Property> FuzzFace for crate::engine::FuzzCtx<P> {
    fn one(&self, data: &[u8]) -> Option<String> {
        crate::engine::FuzzCtx::one(self, data)
    }
    fn mutate(&self, data: &[u8], seed: u32, max_size: usize) -> Vec<u8> {
        crate::engine::FuzzCtx::mutate(self, data, seed, max_size)
    }
    fn crossover(&self, a: &[u8], b: &[u8], seed: u32, max_size: usize) -> Vec<u8> {
        crate::engine::FuzzCtx::crossover(self, a, b, seed, max_size)
    }
}

thread_local! {
    static FUZZ_FACE: std::cell::RefCell<Option<std::rc::Rc<dyn FuzzFace>>> = const { std::cell::RefCell::new(None) };
}

/// The generic coverage-guided target's view of the property named by VP_FUZZ_PROP.
pub fn fuzz_face() -> std::rc::Rc<dyn FuzzFace> {
    FUZZ_FACE.with(|cell| {
        if cell.borrow().is_none() {
            let id = std::env::var("VP_FUZZ_PROP").expect("VP_FUZZ_PROP must name the property");
            let f: std::rc::Rc<dyn FuzzFace> = for_property!(id.as_str(), p => std::rc::Rc::new(crate::engine::FuzzCtx::new(p)), panic!("unknown property {}", id));
            *cell.borrow_mut() = Some(f);
        }
        cell.borrow().as_ref().unwrap().clone()
    })
}
