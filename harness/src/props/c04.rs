//! C04 — min_confirmations cuts the view at the last sufficiently buried block.
use super::common::*;
use crate::engine::{Outcome, Property, Tier};
use crate::hist::{history_brief, history_strategy, History, World};
use crate::sut::{self, Filter};
use proptest::strategy::{BoxedStrategy, Strategy};

pub struct C04;

const THRESHOLD_EXH: u8 = 100;

impl Property for C04 {
    type Case = History;
    fn id(&self) -> &'static str {
        "C04"
    }
    fn strategy(&self, tier: Tier) -> BoxedStrategy<History> {
        match tier {
            Tier::Quick => history_strategy(20, 2, true, true).boxed(),
            Tier::Thorough => history_strategy(40, 3, true, true).boxed(),
        }
    }
    fn cases(&self, tier: Tier) -> u32 {
        match tier {
            Tier::Quick => 60_000,
            Tier::Thorough => 600_000,
        }
    }
    fn rule(&self) -> String {
        "Histories as in C01; after every operation, for every pool address and every c in 0..=best-chain length+2, get_utxos with min_confirmations=c (all pages) must name the model's cut block (last best-chain block such that it and all unstable ancestors have stability count >= c; c=0: the tip) and equal the model ledger as of it; c > number of unstable best-chain blocks must give an explicit error; on fork-free trees tip height = H-c+1. Non-trivial: c >= 2 and the tree has a fork, or the cut differs from the best tip on a forked tree; distinct = (tree shape, c, cut height) hashes.".into()
    }
    fn assumptions(&self) -> Vec<String> {
        vec!["the error variant for too large c is not pinned beyond 'is an explicit error'".into()]
    }
    fn brief(&self, case: &History) -> serde_json::Value {
        history_brief(case)
    }
    fn required_classes(&self, _tier: Tier) -> Vec<&'static str> {
        vec!["cut_below_tip_on_fork", "c_too_large", "fork_free_height_formula", "cut_stops_at_competing_block"]
    }
    fn extra_cases(&self, tier: Tier) -> Vec<History> {
        // exhaustive: every fork tree (shape x arrival order) x difficulties in {1,2,3}
        let mut v = vec![];
        let nmax = match tier {
            Tier::Quick => 4,
            Tier::Thorough => 6,
        };
        for n in 1..=nmax {
            let net = [crate::chain::Net::Mainnet, crate::chain::Net::Testnet, crate::chain::Net::Regtest][n % 3];
            v.extend(crate::hist::exhaustive_trees(n, net, THRESHOLD_EXH));
        }
        v
    }
    fn fuzz_sequences(&self) -> Vec<(&'static str, usize)> {
        vec![("/ops", 40)]
    }
    fn run(&self, case: &History) -> Outcome {
        let mut out = Outcome::default();
        let mut w = World::new(&case.cfg);
        history_classes(case, &mut out);
        let addrs = w.distinct_addresses();
        for (i, op) in case.ops.iter().enumerate() {
            let info = w.apply(i, op);
            if step_errors(&info, &mut out) {
                return out;
            }
            step_classes(&w, &info, &mut out);
            let best = w.model.best_chain();
            let len = best.len() as u32;
            let forked = w.model.leaves().len() >= 2;
            let tip_h = w.model.blocks[*best.last().unwrap()].height;
            // limit the number of addresses per step for cost: rotate
            let a = &addrs[i % addrs.len()];
            for c in 0..=len + 2 {
                let ctx = format!("step {i} get_utxos({a}, min_confirmations={c})");
                out.checks += 1;
                let r = sut::get_utxos_all_pages(case.cfg.net, a, &Filter::MinConf(c), Some(1 + (c as usize + i) % 4));
                match r {
                    Err(p) => out.fail(format!("{ctx}: trapped: {p}")),
                    Ok(Err(e)) => {
                        if c <= len {
                            out.fail(format!("{ctx}: refused ({e}) although the best chain has {len} unstable blocks"));
                        } else {
                            out.class("c_too_large");
                        }
                    }
                    Ok(Ok((ans, _))) => {
                        if c > len {
                            out.fail(format!("{ctx}: answered although c exceeds the {len} unstable best-chain blocks"));
                            continue;
                        }
                        let cut = w.model.cut_on_chain(&best, c);
                        let got = compare_utxos(&mut w, a, &ans, &mut out, &ctx);
                        if let Some(got) = got {
                            if got != cut {
                                out.fail(format!(
                                    "{ctx}: names the block at height {} as tip; the last sufficiently buried best-chain block is at height {}",
                                    w.model.blocks[got].height,
                                    w.model.blocks[cut].height
                                ));
                            }
                        }
                        if !forked && c >= 1 {
                            out.class("fork_free_height_formula");
                            if ans.tip_height != tip_h + 1 - c {
                                out.fail(format!("{ctx}: fork-free chain of height {tip_h}: expected tip height {}", tip_h + 1 - c));
                            }
                        }
                        let cut_h = w.model.blocks[cut].height;
                        if forked && c >= 1 {
                            let plain = tip_h + 1 - c.min(tip_h + 1);
                            if cut_h < plain {
                                out.class("cut_stops_at_competing_block");
                            }
                            if cut_h < tip_h {
                                out.class("cut_below_tip_on_fork");
                            }
                            if c >= 2 || cut_h < tip_h {
                                out.nontrivial(shape(&w, &[c as u64, cut_h as u64]));
                            }
                        }
                    }
                }
            }
        }
        out
    }
}
