//! C17 — The watchdog changes API access only on a quorum of agreeing explorers.
use crate::engine::{fnv, Outcome, Property, Tier};
use ic_btc_interface::Flag;
use ic_management_canister_types::HttpRequestResult;
use proptest::prelude::*;
use serde::{Deserialize, Serialize};
use watchdog::verif_hooks as wd;

pub struct C17;

#[derive(Clone, Debug, Serialize, Deserialize)]
pub enum ExplorerOutcome {
    /// Height = median base + offset - 1000.
    Height(i32),
    HttpError(u16),
    Reject,
    Garbage,
    NullHeight,
}

#[derive(Clone, Debug, Serialize, Deserialize)]
pub struct Case17 {
    /// 0..5: which target configuration.
    pub target: u8,
    pub base: u32,
    /// Canister height relative to base (None = unknown).
    pub canister: Option<i32>,
    /// Per explorer slot (cycled over the target's explorers), per round.
    pub rounds: Vec<Vec<ExplorerOutcome>>,
    /// Permutation seed for the order-independence check of the pure decision.
    pub perm: u32,
}

#[derive(Clone, Copy, Debug, PartialEq, Eq)]
enum Decision {
    NoAction,
    Enable,
    Disable,
}

/// The decision as the statement defines it. `median_up` selects the rounding of the mean of
/// the two middle values for even counts (the statement does not fix it).
fn oracle(heights: &[u64], canister: Option<u64>, min_explorers: u64, behind: u64, ahead: u64, median_up: bool) -> Decision {
    let mut hs = heights.to_vec();
    hs.sort();
    if hs.is_empty() || (hs.len() as u64) < min_explorers {
        return Decision::NoAction;
    }
    let n = hs.len();
    let median = if n % 2 == 1 {
        hs[n / 2]
    } else {
        let s = hs[n / 2 - 1] as u128 + hs[n / 2] as u128;
        if median_up { s.div_ceil(2) as u64 } else { (s / 2) as u64 }
    };
    let lo = median - behind;
    let hi = median + ahead;
    let agreeing = hs.iter().filter(|h| **h >= lo && **h <= hi).count() as u64;
    if agreeing < min_explorers {
        return Decision::NoAction;
    }
    match canister {
        None => Decision::NoAction,
        Some(c) => {
            if c >= lo && c <= hi {
                Decision::Enable
            } else {
                Decision::Disable
            }
        }
    }
}

fn to_decision(flag: Option<Flag>) -> Decision {
    match flag {
        None => Decision::NoAction,
        Some(Flag::Enabled) => Decision::Enable,
        Some(Flag::Disabled) => Decision::Disable,
    }
}

fn raw_body(explorer: &str, height: Option<u64>) -> Vec<u8> {
    let h = match height {
        Some(h) => h.to_string(),
        None => "null".to_string(),
    };
    if explorer.contains("bitcore") {
        format!("[{{\"chain\":\"X\",\"height\":{h},\"hash\":\"00ab\"}}]").into_bytes()
    } else if explorer.contains("blockchair") {
        format!("{{\"data\":{{\"blocks\":1,\"best_block_height\":{h}}},\"context\":{{\"code\":200}}}}").into_bytes()
    } else if explorer.contains("blockcypher") {
        format!("{{\"name\":\"X\",\"height\":{h},\"hash\":\"00\"}}").into_bytes()
    } else {
        match height {
            Some(h) => h.to_string().into_bytes(),
            None => b"null".to_vec(),
        }
    }
}

impl Property for C17 {
    type Case = Case17;
    fn id(&self) -> &'static str {
        "C17"
    }
    fn strategy(&self, _tier: Tier) -> BoxedStrategy<Case17> {
        let outcome = prop_oneof![
            // around the band edges: thresholds are 2, 4 and 1000
            10 => prop_oneof![
                (995i32..=1005),
                (1000i32 - 1002..=1000 - 998),
                (1000i32 + 998..=1000 + 1002),
                Just(1000i32),
                (0i32..2100),
            ].prop_map(ExplorerOutcome::Height),
            1 => prop_oneof![Just(500u16), Just(404), Just(429), Just(201)].prop_map(ExplorerOutcome::HttpError),
            1 => Just(ExplorerOutcome::Reject),
            1 => Just(ExplorerOutcome::Garbage),
            1 => Just(ExplorerOutcome::NullHeight),
        ];
        (
            0u8..5,
            prop_oneof![Just(10_000u32), 10_000u32..4_000_000],
            prop_oneof![1 => Just(None), 8 => prop_oneof![(990i32..=1010), (1000i32 - 1003..=1000 - 997), (1000i32 + 997..=1000 + 1003), (0i32..2100)].prop_map(Some)],
            prop::collection::vec(prop::collection::vec(outcome, 6), 1..4),
            any::<u32>(),
        )
            .prop_map(|(target, base, canister, rounds, perm)| Case17 { target, base, canister, rounds, perm })
            .boxed()
    }
    fn cases(&self, tier: Tier) -> u32 {
        match tier {
            Tier::Quick => 600_000,
            Tier::Thorough => 6_000_000,
        }
    }
    fn rule(&self) -> String {
        "For each of the five target configurations: 1..3 rounds of explorer results (heights clustered on the band edges of the configured thresholds 2, 4 and 1000 around a base >= 10 000, failures as HTTP error status / reject / garbage body / null height) and a canister height on/around the band edges or unknown. Two paths are compared with an independent decision function written from the statement: (a) the pure decision hook on the last round's results in the generated order and in a permuted order; (b) every round run through the real fetch -> transform -> storage -> health -> target path over ic_http mocks (stale values from earlier rounds must not be reused). For an even number of heights the rounding of the median is not fixed by the statement: either rounding is accepted when they disagree. Non-trivial: >= min_explorers successes with a value exactly on a band edge, or a failure replacing an earlier success; distinct = (target, sorted offsets, canister offset) hashes.".into()
    }
    fn assumptions(&self) -> Vec<String> {
        vec![
            "heights are above the configured thresholds (the statement's domain)".into(),
            "the canister height cannot be fetched natively; the hook sets it after the real fetch has stored its own (None) result".into(),
        ]
    }
    fn required_classes(&self, _tier: Tier) -> Vec<&'static str> {
        vec!["value_on_band_edge", "failure_replaces_success", "decision_enable", "decision_disable", "decision_none_quorum", "canister_unknown", "even_count_median_ambiguous", "target_0", "target_1", "target_2", "target_3", "target_4"]
    }
    fn run(&self, case: &Case17) -> Outcome {
        let mut out = Outcome::default();
        let canisters = wd::all_canisters();
        let target = canisters[case.target as usize % canisters.len()];
        out.class(["target_0", "target_1", "target_2", "target_3", "target_4"][case.target as usize % 5]);
        let (min_explorers, behind, ahead, explorers) = wd::config_params(target);
        let base = case.base.max(10_000) as i64;
        let abs = |off: i32| -> u64 { (base + off as i64 - 1000).max(0) as u64 };
        let canister_height = case.canister.map(abs);
        if canister_height.is_none() {
            out.class("canister_unknown");
        }
        wd::set_target(target);
        let requests = wd::explorer_requests(target);
        let mut prev_success: Vec<bool> = vec![false; explorers.len()];
        for (ri, round) in case.rounds.iter().enumerate() {
            let mut results: Vec<(String, Option<u64>)> = vec![];
            let mut replaced = false;
            for (ei, name) in explorers.iter().enumerate() {
                let oc = &round[ei % round.len()];
                let (req_name, req) = &requests[ei];
                assert_eq!(req_name, name);
                let height = match oc {
                    ExplorerOutcome::Height(off) => {
                        ic_http::mock::mock(req.clone(), HttpRequestResult { status: 200u8.into(), headers: vec![], body: raw_body(name, Some(abs(*off))) });
                        Some(abs(*off))
                    }
                    ExplorerOutcome::HttpError(code) => {
                        ic_http::mock::mock(req.clone(), HttpRequestResult { status: (*code).into(), headers: vec![], body: raw_body(name, Some(abs(1000))) });
                        None
                    }
                    ExplorerOutcome::Reject => {
                        ic_http::mock::mock_error(req.clone(), (ic_cdk::call::RejectCode::SysTransient, "timeout".to_string()));
                        None
                    }
                    ExplorerOutcome::Garbage => {
                        ic_http::mock::mock(req.clone(), HttpRequestResult { status: 200u8.into(), headers: vec![], body: b"<html>rate limited</html>".to_vec() });
                        None
                    }
                    ExplorerOutcome::NullHeight => {
                        ic_http::mock::mock(req.clone(), HttpRequestResult { status: 200u8.into(), headers: vec![], body: raw_body(name, None) });
                        None
                    }
                };
                if height.is_none() && prev_success[ei] {
                    replaced = true;
                }
                prev_success[ei] = height.is_some();
                results.push((name.clone(), height));
            }
            let heights: Vec<u64> = results.iter().filter_map(|r| r.1).collect();
            let want_dn = oracle(&heights, canister_height, min_explorers, behind, ahead, false);
            let want_up = oracle(&heights, canister_height, min_explorers, behind, ahead, true);
            if want_dn != want_up {
                out.class("even_count_median_ambiguous");
            }
            // (b) real path
            out.checks += 1;
            let r = crate::sut::guarded(|| futures::executor::block_on(wd::run_round(canister_height)));
            match r {
                Err(p) => out.fail(format!("round {ri}: the fetch/decision path trapped: {p}")),
                Ok((_status, _eh, flag)) => {
                    let got = to_decision(flag);
                    if got != want_dn && got != want_up {
                        out.fail(format!(
                            "round {ri} via fetch+storage on {:?}: results {:?}, canister {:?}: decision {:?}, the statement gives {:?}",
                            target, results, canister_height, got, want_dn
                        ));
                    }
                }
            }
            // (a) pure decision, generated and permuted order
            out.checks += 2;
            let (_s, _eh, flag) = wd::decide(target, canister_height, results.clone());
            let got = to_decision(flag);
            if got != want_dn && got != want_up {
                out.fail(format!("round {ri} pure decision on {:?}: results {:?}, canister {:?}: decision {:?}, the statement gives {:?}", target, results, canister_height, got, want_dn));
            }
            let mut perm = results.clone();
            let mut x = case.perm | 1;
            for i in (1..perm.len()).rev() {
                x ^= x << 13;
                x ^= x >> 17;
                x ^= x << 5;
                perm.swap(i, (x as usize) % (i + 1));
            }
            let (_s2, _eh2, flag2) = wd::decide(target, canister_height, perm);
            if to_decision(flag2) != got {
                out.fail(format!("round {ri}: the decision depends on the order of explorers"));
            }
            match want_dn {
                Decision::Enable => out.class("decision_enable"),
                Decision::Disable => out.class("decision_disable"),
                Decision::NoAction => {
                    if canister_height.is_some() {
                        out.class("decision_none_quorum")
                    }
                }
            }
            // classification
            let mut hs = heights.clone();
            hs.sort();
            let on_edge = if (hs.len() as u64) >= min_explorers && !hs.is_empty() {
                let n = hs.len();
                let med = if n % 2 == 1 { hs[n / 2] } else { (hs[n / 2 - 1] + hs[n / 2]) / 2 };
                hs.iter().chain(canister_height.iter()).any(|h| *h + behind == med || *h == med + ahead || *h + behind + 1 == med || *h == med + ahead + 1)
            } else {
                false
            };
            if on_edge {
                out.class("value_on_band_edge");
            }
            if replaced {
                out.class("failure_replaces_success");
            }
            if on_edge || replaced {
                let offs: Vec<i64> = hs.iter().map(|h| *h as i64 - base).collect();
                out.nontrivial(fnv(format!("{}-{:?}-{:?}-{}", case.target % 5, offs, case.canister, replaced).as_bytes()));
            }
        }
        out
    }
}
