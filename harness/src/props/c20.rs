//! C20 — Bookkeeping for unstable blocks is exact: nothing leaks, nothing dangles.
use super::common::*;
use crate::engine::{Outcome, Property, Tier};
use crate::hist::{history_brief, history_strategy, History, World};
use crate::model::{txid32, H32};
use bitcoin::hashes::Hash;
use ic_btc_canister as can;
use proptest::strategy::{BoxedStrategy, Strategy};
use std::collections::BTreeMap;

pub struct C20;

fn h(b: &ic_btc_types::BlockHash) -> H32 {
    let mut a = [0u8; 32];
    a.copy_from_slice(b.as_bytes());
    a
}

pub fn check_bookkeeping(w: &mut World, i: usize, out: &mut Outcome) {
    out.checks += 1;
    let snap = can::with_state(|s| s.unstable_blocks.verif_bookkeeping());
    let m = &w.model;
    let mut live: Vec<H32> = m.live.iter().map(|b| m.blocks[*b].hash).collect();
    live.sort();
    let sorted = |v: &Vec<ic_btc_types::BlockHash>| {
        let mut x: Vec<H32> = v.iter().map(h).collect();
        x.sort();
        x
    };
    let tree: Vec<H32> = {
        let mut x: Vec<H32> = snap.tree.iter().map(|(b, _, _)| h(b)).collect();
        x.sort();
        x
    };
    if tree != live {
        out.fail(format!("step {i}: tree holds {} blocks, the live tree has {}", tree.len(), live.len()));
    }
    if sorted(&snap.cached_blocks) != live {
        out.fail(format!(
            "step {i}: block bodies retained in stable memory: {} entries, live tree has {} blocks (leak or dangling body)",
            snap.cached_blocks.len(), live.len()
        ));
    }
    if sorted(&snap.added_keys) != live {
        out.fail(format!("step {i}: per-block added-outpoints map has {} entries for {} live blocks", snap.added_keys.len(), live.len()));
    }
    if sorted(&snap.removed_keys) != live {
        out.fail(format!("step {i}: per-block removed-outpoints map has {} entries for {} live blocks", snap.removed_keys.len(), live.len()));
    }
    // difficulties + parents
    for (b, parent, diff) in &snap.tree {
        if let Some(id) = m.id_of(&h(b)) {
            if *diff != m.blocks[id].diff {
                out.fail(format!("step {i}: a tree block carries difficulty {diff}, expected {}", m.blocks[id].diff));
            }
            if let Some(p) = m.blocks[id].parent {
                if h(parent) != m.blocks[p].hash {
                    out.fail(format!("step {i}: a tree block has the wrong parent"));
                }
            }
        }
    }
    // tx-out reference counts recomputed from the live blocks
    let mut refs: BTreeMap<(H32, u32), u32> = BTreeMap::new();
    for b in m.live.iter() {
        for tx in &m.blocks[*b].block.txdata {
            if !tx.is_coinbase() {
                for inp in &tx.input {
                    *refs.entry((inp.previous_output.txid.to_byte_array(), inp.previous_output.vout)).or_insert(0) += 1;
                }
            }
            let id = txid32(tx);
            for k in 0..tx.output.len() {
                *refs.entry((id, k as u32)).or_insert(0) += 1;
            }
        }
    }
    let mut got: BTreeMap<(H32, u32), u32> = BTreeMap::new();
    for (op, _v, _s, _h, count) in &snap.tx_outs {
        let mut t = [0u8; 32];
        t.copy_from_slice(op.txid.as_bytes());
        got.insert((t, op.vout), *count);
    }
    if got != refs {
        let leaked = got.keys().filter(|k| !refs.contains_key(*k)).count();
        let missing = refs.keys().filter(|k| !got.contains_key(*k)).count();
        let wrong = got.iter().filter(|(k, v)| refs.get(*k).map(|r| r != *v).unwrap_or(false)).count();
        out.fail(format!(
            "step {i}: cached transaction outputs differ from what the live blocks reference: {leaked} leaked, {missing} missing, {wrong} with a wrong reference count (cache {} entries, required {})",
            got.len(), refs.len()
        ));
    }
    // values/scripts of cached tx outs
    let anchor = m.anchor;
    let _ = anchor;
    // tip depths as multisets
    let mut want_depths: Vec<usize> = m.leaf_paths(m.anchor).iter().map(|p| p.len()).collect();
    want_depths.sort();
    let mut got_depths = snap.tip_depths.clone();
    got_depths.sort();
    if want_depths != got_depths {
        out.fail(format!("step {i}: cached tip depths {:?} differ from the leaf depths {:?}", got_depths, want_depths));
    }
    // announced headers: none for a live block, none at or below the stable height
    let sh = m.anchor_height();
    for (hash, height) in &snap.next_headers {
        if m.id_of(&h(hash)).map(|id| m.live.contains(&id)).unwrap_or(false) {
            out.fail(format!("step {i}: an announced header is retained although its block is in the tree"));
        }
        if *height <= sh {
            out.fail(format!("step {i}: an announced header at height {height} is retained although the stable height is {sh}"));
        }
    }
    let idx: usize = snap.next_headers_by_height.iter().map(|(_, v)| v.len()).sum();
    if idx != snap.next_headers.len() {
        out.fail(format!("step {i}: announced-header height index has {idx} entries for {} headers", snap.next_headers.len()));
    }
}

impl Property for C20 {
    type Case = History;
    fn id(&self) -> &'static str {
        "C20"
    }
    fn strategy(&self, tier: Tier) -> BoxedStrategy<History> {
        match tier {
            Tier::Quick => history_strategy(26, 3, true, true).boxed(),
            Tier::Thorough => history_strategy(50, 4, true, true).boxed(),
        }
    }
    fn cases(&self, tier: Tier) -> u32 {
        match tier {
            Tier::Quick => 40_000,
            Tier::Thorough => 400_000,
        }
    }
    fn rule(&self) -> String {
        "Histories as in C01 (forks discarded at different depths, transactions shared between forks, outputs spent across forks, upgrades); after every operation the hook's abstract snapshot must equal what is recomputed from the live tree: block-cache keys = added-map keys = removed-map keys = live hashes, per-block difficulty and parent, tx-out entries = exactly the outpoints that live blocks create or spend with count = number of references, cached tip depths = leaf depths (multiset), no announced header for a live block or at/below the stable height; and every later operation and query of the history runs without a trap (all endpoints are exercised after every step). Non-trivial: a step that discards >= 2 blocks, or discards a block that shares a transaction or spends an output also referenced by the surviving chain; distinct = tree-shape hashes before the discard.".into()
    }
    fn brief(&self, case: &History) -> serde_json::Value {
        history_brief(case)
    }
    fn required_classes(&self, _tier: Tier) -> Vec<&'static str> {
        vec!["discard_ge_2_blocks", "discard_with_shared_reference", "step_upgrade", "step_shared_tx", "shared_tx_and_its_spender_in_one_block"]
    }
    fn fuzz_sequences(&self) -> Vec<(&'static str, usize)> {
        vec![("/ops", 50)]
    }
    fn run(&self, case: &History) -> Outcome {
        let mut out = Outcome::default();
        let mut w = World::new(&case.cfg);
        history_classes(case, &mut out);
        let mut fee_tip = None;
        for (i, op) in case.ops.iter().enumerate() {
            let pre_shape = shape(&w, &[]);
            let pre_live: Vec<usize> = w.model.live.iter().copied().collect();
            let info = w.apply(i, op);
            if step_errors(&info, &mut out) {
                return out;
            }
            step_classes(&w, &info, &mut out);
            if w.shared_tx_spent_in_block > 0 {
                out.class_n("shared_tx_and_its_spender_in_one_block", w.shared_tx_spent_in_block);
                w.shared_tx_spent_in_block = 0;
            }
            check_bookkeeping(&mut w, i, &mut out);
            // "no later step fails on a missing entry": exercise the readers of the caches
            super::c02::check_tip_agreement(&mut w, i, &mut out, &mut fee_tip);
            if !info.advances.is_empty() {
                // discarded = blocks that left the tree, except the old anchors on the path
                let path: Vec<usize> = w.model.chain_to(w.model.anchor);
                let discarded: Vec<usize> = pre_live.iter().copied().filter(|b| !w.model.live.contains(b) && !path.contains(b)).collect();
                let mut shared_ref = false;
                let mut surviving: std::collections::BTreeSet<(H32, u32)> = Default::default();
                for b in w.model.live.iter() {
                    for tx in &w.model.blocks[*b].block.txdata {
                        for inp in &tx.input {
                            surviving.insert((inp.previous_output.txid.to_byte_array(), inp.previous_output.vout));
                        }
                        let id = txid32(tx);
                        for k in 0..tx.output.len() {
                            surviving.insert((id, k as u32));
                        }
                    }
                }
                for b in &discarded {
                    for tx in &w.model.blocks[*b].block.txdata {
                        if tx.is_coinbase() {
                            continue;
                        }
                        let id = txid32(tx);
                        if tx.input.iter().any(|inp| surviving.contains(&(inp.previous_output.txid.to_byte_array(), inp.previous_output.vout)))
                            || (0..tx.output.len()).any(|k| surviving.contains(&(id, k as u32)))
                        {
                            shared_ref = true;
                        }
                    }
                }
                if discarded.len() >= 2 {
                    out.class("discard_ge_2_blocks");
                }
                if shared_ref {
                    out.class("discard_with_shared_reference");
                }
                if discarded.len() >= 2 || shared_ref {
                    out.nontrivial(crate::engine::fnv(format!("{}-{}-{}", pre_shape, discarded.len(), shared_ref).as_bytes()));
                }
            }
        }
        out
    }
}
