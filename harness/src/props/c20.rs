//! C20 — Bookkeeping for unstable blocks is exact: nothing leaks, nothing dangles.
use super::common::*;
use crate::engine::{Outcome, Property, Tier};
use crate::hist::{history_brief, history_strategy, History, World};
use crate::model::{txid32, H32};
use bitcoin::hashes::Hash;
use ic_btc_canister as can;
use proptest::strategy::BoxedStrategy;
use std::collections::BTreeMap;

pub struct C20;

/// Either a history of the direct driver (no announced headers), or a scenario of C14's direct
/// driver, which announces headers through `insert_next_block_headers`, delivers their blocks
/// later or leaves them stale. Untagged: a serialised `History` is a serialised `Case20`.
#[derive(Clone, Debug, serde::Serialize, serde::Deserialize)]
#[serde(untagged)]
pub enum Case20 {
    Hist(History),
    Announcing(super::c14::Direct14),
}

fn h(b: &ic_btc_types::BlockHash) -> H32 {
    let mut a = [0u8; 32];
    a.copy_from_slice(b.as_bytes());
    a
}

pub fn check_bookkeeping(w: &mut World, i: usize, out: &mut Outcome) {
    out.checks += 1;
    let snap = can::with_state(|s| s.unstable_blocks.verif_bookkeeping());
    let m = &w.model;
    let mut live: Vec<H32> = m.live.iter().map(|b| m.blocks[*b].hash).collect();
    live.sort();
    let sorted = |v: &Vec<ic_btc_types::BlockHash>| {
        let mut x: Vec<H32> = v.iter().map(h).collect();
        x.sort();
        x
    };
    let tree: Vec<H32> = {
        let mut x: Vec<H32> = snap.tree.iter().map(|(b, _, _)| h(b)).collect();
        x.sort();
        x
    };
    if tree != live {
        out.fail(format!("step {i}: tree holds {} blocks, the live tree has {}", tree.len(), live.len()));
    }
    if sorted(&snap.cached_blocks) != live {
        out.fail(format!(
            "step {i}: block bodies retained in stable memory: {} entries, live tree has {} blocks (leak or dangling body)",
            snap.cached_blocks.len(), live.len()
        ));
    }
    if sorted(&snap.added_keys) != live {
        out.fail(format!("step {i}: per-block added-outpoints map has {} entries for {} live blocks", snap.added_keys.len(), live.len()));
    }
    if sorted(&snap.removed_keys) != live {
        out.fail(format!("step {i}: per-block removed-outpoints map has {} entries for {} live blocks", snap.removed_keys.len(), live.len()));
    }
    // difficulties + parents
    for (b, parent, diff) in &snap.tree {
        if let Some(id) = m.id_of(&h(b)) {
            if *diff != m.blocks[id].diff {
                out.fail(format!("step {i}: a tree block carries difficulty {diff}, expected {}", m.blocks[id].diff));
            }
            if let Some(p) = m.blocks[id].parent {
                if h(parent) != m.blocks[p].hash {
                    out.fail(format!("step {i}: a tree block has the wrong parent"));
                }
            }
        }
    }
    // tx-out reference counts recomputed from the live blocks
    let mut refs: BTreeMap<(H32, u32), u32> = BTreeMap::new();
    for b in m.live.iter() {
        for tx in &m.blocks[*b].block.txdata {
            if !tx.is_coinbase() {
                for inp in &tx.input {
                    *refs.entry((inp.previous_output.txid.to_byte_array(), inp.previous_output.vout)).or_insert(0) += 1;
                }
            }
            let id = txid32(tx);
            for k in 0..tx.output.len() {
                *refs.entry((id, k as u32)).or_insert(0) += 1;
            }
        }
    }
    let mut got: BTreeMap<(H32, u32), u32> = BTreeMap::new();
    for (op, _v, _s, _h, count) in &snap.tx_outs {
        let mut t = [0u8; 32];
        t.copy_from_slice(op.txid.as_bytes());
        got.insert((t, op.vout), *count);
    }
    if got != refs {
        let leaked = got.keys().filter(|k| !refs.contains_key(*k)).count();
        let missing = refs.keys().filter(|k| !got.contains_key(*k)).count();
        let wrong = got.iter().filter(|(k, v)| refs.get(*k).map(|r| r != *v).unwrap_or(false)).count();
        out.fail(format!(
            "step {i}: cached transaction outputs differ from what the live blocks reference: {leaked} leaked, {missing} missing, {wrong} with a wrong reference count (cache {} entries, required {})",
            got.len(), refs.len()
        ));
    }
    // values/scripts of cached tx outs
    let anchor = m.anchor;
    let _ = anchor;
    // tip depths as multisets
    let mut want_depths: Vec<usize> = m.leaf_paths(m.anchor).iter().map(|p| p.len()).collect();
    want_depths.sort();
    let mut got_depths = snap.tip_depths.clone();
    got_depths.sort();
    if want_depths != got_depths {
        out.fail(format!("step {i}: cached tip depths {:?} differ from the leaf depths {:?}", got_depths, want_depths));
    }
    // announced headers: none for a live block, none at or below the stable height
    let sh = m.anchor_height();
    for (hash, height) in &snap.next_headers {
        if m.id_of(&h(hash)).map(|id| m.live.contains(&id)).unwrap_or(false) {
            out.fail(format!("step {i}: an announced header is retained although its block is in the tree"));
        }
        if *height <= sh {
            out.fail(format!("step {i}: an announced header at height {height} is retained although the stable height is {sh}"));
        }
    }
    let idx: usize = snap.next_headers_by_height.iter().map(|(_, v)| v.len()).sum();
    if idx != snap.next_headers.len() {
        out.fail(format!("step {i}: announced-header height index has {idx} entries for {} headers", snap.next_headers.len()));
    }
}

/// The announced headers held by the canister must be exactly those the model says are still
/// needed: announced, valid, connected when announced, block not arrived, above the stable height.
fn check_announced(announced: &super::c14::Announced, i: usize, out: &mut Outcome) {
    out.checks += 1;
    let snap = can::with_state(|s| s.unstable_blocks.verif_bookkeeping());
    let mut got: Vec<(H32, u32)> = snap.next_headers.iter().map(|(hash, height)| (h(hash), *height)).collect();
    got.sort();
    let mut want: Vec<(H32, u32)> = announced.iter().map(|(hash, (height, _))| (*hash, *height)).collect();
    want.sort();
    if got != want {
        let missing = want.iter().filter(|x| !got.contains(x)).count();
        let extra = got.iter().filter(|x| !want.contains(x)).count();
        out.fail(format!(
            "event {i}: announced headers held: {} (heights {:?}); still needed (announced, block not arrived, above the stable height): {} (heights {:?}): {missing} missing, {extra} not needed",
            got.len(), got.iter().map(|x| x.1).collect::<Vec<_>>(), want.len(), want.iter().map(|x| x.1).collect::<Vec<_>>()
        ));
    }
    if !want.is_empty() {
        out.class("announced_headers_held");
    }
}

impl Property for C20 {
    type Case = Case20;
    fn id(&self) -> &'static str {
        "C20"
    }
    fn strategy(&self, tier: Tier) -> BoxedStrategy<Case20> {
        use proptest::prelude::*;
        let (ops, evs) = match tier {
            Tier::Quick => (26, 36),
            Tier::Thorough => (50, 70),
        };
        prop_oneof![
            3 => history_strategy(ops, if tier == Tier::Quick { 3 } else { 4 }, true, true).prop_map(Case20::Hist),
            1 => super::c14::direct_strategy(evs).prop_map(Case20::Announcing),
        ]
        .boxed()
    }
    fn cases(&self, tier: Tier) -> u32 {
        match tier {
            Tier::Quick => 40_000,
            Tier::Thorough => 400_000,
        }
    }
    fn rule(&self) -> String {
        "Three in four cases: histories as in C01 (forks discarded at different depths, transactions shared between forks, outputs spent across forks, upgrades); after every operation the hook's abstract snapshot must equal what is recomputed from the live tree: block-cache keys = added-map keys = removed-map keys = live hashes, per-block difficulty and parent, tx-out entries = exactly the outpoints that live blocks create or spend with count = number of references, cached tip depths = leaf depths (multiset), no announced header for a live block or at/below the stable height; and every later operation and query of the history runs without a trap (all endpoints are exercised after every step). One in four cases: C14's direct-driver scenarios on regtest (headers of 1..4 chained blocks announced through insert_next_block_headers on any live block, their blocks delivered later in any order or never, competing forks, anchor advances): after every event the same snapshot checks, and the announced headers held must be exactly the announced ones whose block has not arrived and whose height is above the stable height (none dropped early, none kept late). Non-trivial: a step that discards >= 2 blocks, or discards a block that shares a transaction or spends an output also referenced by the surviving chain; or an event after which announced headers are held; distinct = tree-shape hashes before the discard / (tree shape, announced heights).".into()
    }
    fn brief(&self, case: &Case20) -> serde_json::Value {
        match case {
            Case20::Hist(h) => history_brief(h),
            Case20::Announcing(d) => serde_json::json!({"announcing_scenario": {"threshold": d.threshold, "diff_mode": format!("{:?}", d.diff_mode), "events": d.evs.len()}}),
        }
    }
    fn required_classes(&self, _tier: Tier) -> Vec<&'static str> {
        vec!["discard_ge_2_blocks", "discard_with_shared_reference", "step_upgrade", "step_shared_tx", "shared_tx_and_its_spender_in_one_block", "announced_headers_held", "announced_header_dropped_by_stable_height", "announced_block_delivered"]
    }
    fn fuzz_sequences(&self) -> Vec<(&'static str, usize)> {
        vec![("/ops", 50), ("/evs", 70)]
    }
    fn run(&self, case: &Case20) -> Outcome {
        let mut out = Outcome::default();
        let case = match case {
            Case20::Hist(h) => h,
            Case20::Announcing(d) => {
                out.class("announcing_scenario");
                // the access flags are C14's subject: here every endpoint must stay callable so
                // that the readers of the caches are exercised after every event
                let mut d = d.clone();
                d.api = true;
                d.sync = false;
                d.evs.retain(|e| !matches!(e, super::c14::EvD::SetFlags { .. }));
                let d = &d;
                let mut fee_tip = None;
                let mut nontrivial: Vec<u64> = vec![];
                super::c14::run_direct_with(d, false, &mut out, &mut |w, announced, i, out| {
                    check_bookkeeping(w, i, out);
                    check_announced(announced, i, out);
                    // "no later step fails on a missing entry": the readers of the caches
                    super::c02::check_tip_agreement(w, i, out, &mut fee_tip);
                    if !announced.is_empty() {
                        let hs: Vec<u32> = announced.values().map(|(h, _)| *h).collect();
                        nontrivial.push(crate::engine::fnv(format!("{}-{:?}-{}", shape(w, &[]), hs, w.model.anchor_height()).as_bytes()));
                    }
                });
                for n in nontrivial {
                    out.nontrivial(n);
                }
                return out;
            }
        };
        let mut w = World::new(&case.cfg);
        history_classes(case, &mut out);
        let mut fee_tip = None;
        for (i, op) in case.ops.iter().enumerate() {
            let pre_shape = shape(&w, &[]);
            let pre_live: Vec<usize> = w.model.live.iter().copied().collect();
            let info = w.apply(i, op);
            if step_errors(&info, &mut out) {
                return out;
            }
            step_classes(&w, &info, &mut out);
            if w.shared_tx_spent_in_block > 0 {
                out.class_n("shared_tx_and_its_spender_in_one_block", w.shared_tx_spent_in_block);
                w.shared_tx_spent_in_block = 0;
            }
            check_bookkeeping(&mut w, i, &mut out);
            // "no later step fails on a missing entry": exercise the readers of the caches
            super::c02::check_tip_agreement(&mut w, i, &mut out, &mut fee_tip);
            if !info.advances.is_empty() {
                // discarded = blocks that left the tree, except the old anchors on the path
                let path: Vec<usize> = w.model.chain_to(w.model.anchor);
                let discarded: Vec<usize> = pre_live.iter().copied().filter(|b| !w.model.live.contains(b) && !path.contains(b)).collect();
                let mut shared_ref = false;
                let mut surviving: std::collections::BTreeSet<(H32, u32)> = Default::default();
                for b in w.model.live.iter() {
                    for tx in &w.model.blocks[*b].block.txdata {
                        for inp in &tx.input {
                            surviving.insert((inp.previous_output.txid.to_byte_array(), inp.previous_output.vout));
                        }
                        let id = txid32(tx);
                        for k in 0..tx.output.len() {
                            surviving.insert((id, k as u32));
                        }
                    }
                }
                for b in &discarded {
                    for tx in &w.model.blocks[*b].block.txdata {
                        if tx.is_coinbase() {
                            continue;
                        }
                        let id = txid32(tx);
                        if tx.input.iter().any(|inp| surviving.contains(&(inp.previous_output.txid.to_byte_array(), inp.previous_output.vout)))
                            || (0..tx.output.len()).any(|k| surviving.contains(&(id, k as u32)))
                        {
                            shared_ref = true;
                        }
                    }
                }
                if discarded.len() >= 2 {
                    out.class("discard_ge_2_blocks");
                }
                if shared_ref {
                    out.class("discard_with_shared_reference");
                }
                if discarded.len() >= 2 || shared_ref {
                    out.nontrivial(crate::engine::fnv(format!("{}-{}-{}", pre_shape, discarded.len(), shared_ref).as_bytes()));
                }
            }
        }
        out
    }
}
