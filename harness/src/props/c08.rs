//! C08 — Time-sliced ingestion is invisible and schedule independent.
use super::common::*;
use crate::engine::{fnv, Outcome, Property, Tier};
use crate::hb::{hb_cfg, scenario_brief, scenario_strategy, Ev, HbWorld, MineSpec, Scenario};
use crate::hist::TxSpec;
use crate::snapshot::{self, Snapshot};
use crate::sut::{self, SutConfig};
use ic_btc_canister as can;
use proptest::prelude::*;

pub struct C08;

fn block_ops(w: &HbWorld, id: usize) -> usize {
    w.w.model.blocks[id]
        .block
        .txdata
        .iter()
        .map(|t| t.output.len() + if t.is_coinbase() { 0 } else { t.input.len() })
        .sum()
}

pub struct RunResult {
    pub final_snapshot: Option<Snapshot>,
    pub bookkeeping: String,
    pub paused_rounds: usize,
    pub paused_inside_tx: usize,
    pub touched_stable_address: bool,
}

/// Runs a scenario; `sliced` = honour the budgets, otherwise unlimited budget everywhere.
pub fn run_scenario(sc: &Scenario, sliced: bool, check: bool, mines_first: bool, out: &mut Outcome) -> Option<RunResult> {
    let reordered: Scenario;
    let sc = if mines_first {
        // blocks and reply plans first (plans queue up: the k-th initial request gets the k-th
        // plan in every run), then the heartbeats
        let mut evs: Vec<Ev> = sc.evs.iter().filter(|e| matches!(e, Ev::Mine(_))).cloned().collect();
        evs.extend(sc.evs.iter().filter(|e| matches!(e, Ev::Plan(_))).cloned());
        evs.extend(sc.evs.iter().filter(|e| !matches!(e, Ev::Mine(_) | Ev::Plan(_))).cloned());
        reordered = Scenario { threshold: sc.threshold, pool: sc.pool.clone(), evs };
        &reordered
    } else {
        sc
    };
    let cfg = hb_cfg(sc.threshold, sc.pool.clone());
    let sc_cfg = SutConfig::new(cfg.net, cfg.threshold as u32);
    let mut hw = HbWorld::new(&cfg, sc_cfg);
    let mut res = RunResult { final_snapshot: None, bookkeeping: String::new(), paused_rounds: 0, paused_inside_tx: 0, touched_stable_address: false };
    let mut pre: Option<Snapshot> = None;
    let mut rounds_this_block = 0usize;
    let mut budgets: Vec<Option<u16>> = vec![];
    let beat = |hw: &mut HbWorld, budget: Option<u16>, i: usize, out: &mut Outcome, res: &mut RunResult, pre: &mut Option<Snapshot>, rounds_this_block: &mut usize| -> bool {
        let was_ingesting = sut::is_ingesting();
        if !was_ingesting && check {
            *pre = Some(snapshot::take(&hw.w));
            *rounds_this_block = 0;
        }
        let anchor_before = hw.w.model.anchor;
        let info = hw.heartbeat(if sliced { budget } else { None });
        if std::env::var("VP_TRACE").is_ok() {
            let last = hw.source.borrow().log.last().map(|l| format!("{:?} -> {:?}", l.request, l.reply));
            crate::say!(
                "  [trace sliced={sliced}] ev {i} budget {:?}: was_ingesting={was_ingesting} paused_after={} requests={} last_req={:?} admitted={:?} anchor_h={} tree={}",
                budget, info.paused_after, info.requests_issued, if info.requests_issued > 0 { last } else { None }, info.admitted, hw.w.model.anchor_height(), hw.w.model.live.len()
            );
        }
        if let Some(p) = &info.trapped {
            out.fail(format!("event {i}: heartbeat trapped: {p}"));
            return false;
        }
        if step_errors(&info.step, out) {
            return false;
        }
        if info.paused_after || was_ingesting {
            if info.paused_after && hw.w.model.anchor != anchor_before {
                // an earlier block was completed in this heartbeat and the next one has begun
                *rounds_this_block = 1;
            } else {
                *rounds_this_block += 1;
            }
            if check {
                out.checks += 1;
                if info.requests_issued > 0 {
                    out.fail(format!("event {i}: a get_successors request was issued while a block is being ingested"));
                }
                if !info.admitted.is_empty() {
                    out.fail(format!("event {i}: new blocks were processed while a block is being ingested"));
                }
                let ops = block_ops(hw, if info.paused_after { hw.w.model.anchor } else { anchor_before });
                if *rounds_this_block > ops + 1 {
                    out.fail(format!("event {i}: ingestion of a block with {ops} operations is still not finished after {} rounds", *rounds_this_block));
                }
            }
        }
        if info.paused_after {
            res.paused_rounds += 1;
            let pos = can::with_state(|s| s.utxos.ingesting_block.as_ref().map(|b| (b.next_tx_idx, b.next_input_idx, b.next_output_idx)));
            if let Some((_t, a, b)) = pos {
                if a > 0 || b > 0 {
                    res.paused_inside_tx += 1;
                }
            }
            if check {
                out.checks += 1;
                let now = snapshot::take(&hw.w);
                // If an earlier stable block was completed in this very heartbeat, the state
                // "before this block's ingestion began" was never observable: the first paused
                // snapshot becomes the reference (and is checked against the model below).
                if hw.w.model.anchor != anchor_before {
                    *pre = Some(now.clone());
                } else if let Some(p) = pre.as_ref() {
                    if let Some(d) = snapshot::diff(p, &now, false, false, false) {
                        out.fail(format!("event {i}: while ingestion is paused ({:?}) an answer differs from the one given before the ingestion began: {d}", pos));
                    }
                }
                // model-based oracles at the pause point
                let mut sub = Outcome::default();
                let mut fee_tip = Some(hw.w.model.best_tip());
                super::c02::check_tip_agreement(&mut hw.w, i, &mut sub, &mut fee_tip);
                super::c07::check_all_ranges(&hw.w, i, &mut sub, &format!("event {i} paused"), true);
                for a in hw.w.distinct_addresses() {
                    if let Ok(Ok((ans, _))) = sut::get_utxos_all_pages(hw.w.cfg.net, &a, &sut::Filter::None, Some(2)) {
                        compare_utxos(&mut hw.w, &a, &ans, &mut sub, &format!("event {i} paused get_utxos({a})"));
                    }
                }
                out.checks += sub.checks;
                out.discs.extend(sub.discs);
                // the block being ingested touches a pool address that has stable funds?
                let blk = &hw.w.model.blocks[hw.w.model.anchor];
                let net = hw.w.cfg.net;
                let touches = blk.block.txdata.iter().any(|t| t.output.iter().any(|o| crate::chain::address_of(&o.script_pubkey, net).is_some()));
                if touches {
                    res.touched_stable_address = true;
                }
            }
        }
        true
    };
    for (i, ev) in sc.evs.iter().enumerate() {
        match ev {
            Ev::Mine(MineSpec { parent, prefer_tip, coinbase, txs, dt }) => {
                hw.mine(*parent, *prefer_tip, coinbase, txs, *dt);
            }
            Ev::Plan(p) => hw.plan(p.clone()),
            Ev::Upgrade => {
                if let Err(p) = hw.upgrade(None) {
                    out.fail(format!("event {i}: upgrade trapped: {p}"));
                    return None;
                }
            }
            Ev::Beat(b) => {
                budgets.push(*b);
                if !beat(&mut hw, *b, i, out, &mut res, &mut pre, &mut rounds_this_block) {
                    return None;
                }
            }
        }
    }
    // drain: heartbeats until everything offered is applied and nothing is left to ingest
    let plan_pages: usize = sc
        .evs
        .iter()
        .map(|e| match e {
            Ev::Plan(crate::hb::ReplyPlan::Split { pages, .. }) => *pages as usize + 4,
            Ev::Plan(_) => 3,
            _ => 0,
        })
        .sum();
    let limit = plan_pages + 60 + 8 * hw.w.model.blocks.len() + 3 * hw.w.model.blocks.iter().map(|b| b.block.txdata.iter().map(|t| t.input.len() + t.output.len()).sum::<usize>()).sum::<usize>();
    let mut quiet = 0;
    let mut n = 0;
    while quiet < 3 {
        let b = if budgets.is_empty() { None } else { budgets[n % budgets.len()] };
        let before = (sut::tree_hashes(), sut::is_ingesting());
        if !beat(&mut hw, b, 100_000 + n, out, &mut res, &mut pre, &mut rounds_this_block) {
            return None;
        }
        let after = (sut::tree_hashes(), sut::is_ingesting());
        if before == after && !after.1 && hw.fully_synced() {
            quiet += 1;
        } else {
            quiet = 0;
        }
        n += 1;
        if n > limit {
            out.fail(format!("the canister did not become quiescent within {limit} heartbeats after the last event (synced: {}, ingesting: {})", hw.fully_synced(), after.1));
            return None;
        }
    }
    res.final_snapshot = Some(snapshot::take(&hw.w));
    res.bookkeeping = format!("{:?}", can::with_state(|s| s.unstable_blocks.verif_bookkeeping()));
    Some(res)
}

impl Property for C08 {
    type Case = Scenario;
    fn id(&self) -> &'static str {
        "C08"
    }
    fn strategy(&self, tier: Tier) -> BoxedStrategy<Scenario> {
        match tier {
            Tier::Quick => scenario_strategy(40, 3, false, false, true).boxed(),
            Tier::Thorough => scenario_strategy(70, 4, false, false, true).boxed(),
        }
    }
    fn cases(&self, tier: Tier) -> u32 {
        match tier {
            Tier::Quick => 2_500,
            Tier::Thorough => 25_000,
        }
    }
    fn rule(&self) -> String {
        "Heartbeat-driver scenarios on regtest (mined blocks with spends of stable outputs, same-block create-and-spend, non-address and oversized scripts, prefix pairs; a request-driven block source answering with complete and split replies) where every heartbeat carries an instruction budget that lets the ingestion round perform exactly k in 1..5 input/output operations (or unlimited). Oracle: (a) the observable snapshot (config, info, get_utxos for every pool address x every c with all pages, balances, header ranges, stored fee percentiles, counters) taken before a block's ingestion began equals the snapshot after every paused round; (b) no get_successors request and no processed block while an ingestion is in progress; (c) rounds <= operations of the block + 1; (d) twin run of the same scenario with unlimited budgets: final snapshots and the abstract bookkeeping view are identical; the run becomes quiescent and fully synced within a bound derived from the scenario size. Thorough adds every composition of the operations of a fixed 8-operation block into rounds. Non-trivial: >= 1 pause strictly inside a transaction's inputs or outputs while the block touches a pool address; distinct = scenario hashes.".into()
    }
    fn assumptions(&self) -> Vec<String> {
        vec!["fee percentiles are in lazy mode so that the stored percentiles do not depend on the heartbeat in which a tip is first seen".into()]
    }
    fn brief(&self, case: &Scenario) -> serde_json::Value {
        scenario_brief(case)
    }
    fn required_classes(&self, _tier: Tier) -> Vec<&'static str> {
        vec!["paused_inside_transaction", "paused_round", "twin_compared", "split_reply_used"]
    }
    fn max_shrink_iters(&self) -> u32 {
        300
    }
    fn extra_cases(&self, tier: Tier) -> Vec<Scenario> {
        if tier != Tier::Thorough {
            return vec![];
        }
        // every composition of 8 operations into rounds, on a fixed scenario
        let pool = vec![crate::chain::ScriptSpec::P2pkh(0), crate::chain::ScriptSpec::P2wpkh(1), crate::chain::ScriptSpec::Junk { len: 300, seed: 1 }];
        let tx = |ins: Vec<u16>, outs: Vec<(u8, u16)>| TxSpec { inputs: ins, outs, fee_permille: 10, witness: None };
        let mut out = vec![];
        for mask in 0u32..128 {
            // composition from the bit mask
            let mut budgets = vec![];
            let mut cur = 1u16;
            for b in 0..7 {
                if (mask >> b) & 1 == 1 {
                    budgets.push(cur);
                    cur = 1;
                } else {
                    cur += 1;
                }
            }
            budgets.push(cur);
            let mut evs = vec![
                Ev::Mine(MineSpec { parent: 0, prefer_tip: true, coinbase: vec![(0, 5), (1, 5), (2, 1)], txs: vec![], dt: 10 }),
                Ev::Mine(MineSpec { parent: 0, prefer_tip: true, coinbase: vec![(1, 3)], txs: vec![tx(vec![0, 40000], vec![(0, 1), (1, 2), (0, 0)]), tx(vec![65535], vec![(2, 1)])], dt: 10 }),
                Ev::Mine(MineSpec { parent: 0, prefer_tip: true, coinbase: vec![(0, 1)], txs: vec![], dt: 10 }),
                Ev::Mine(MineSpec { parent: 0, prefer_tip: true, coinbase: vec![(0, 1)], txs: vec![], dt: 10 }),
            ];
            for k in 0..40 {
                evs.push(Ev::Beat(Some(budgets[k % budgets.len()])));
            }
            out.push(Scenario { threshold: 1, pool: pool.clone(), evs });
        }
        out
    }
    fn fuzz_sequences(&self) -> Vec<(&'static str, usize)> {
        vec![("/evs", 70)]
    }
    fn run(&self, case: &Scenario) -> Outcome {
        let mut out = Outcome::default();
        // (1) the scenario as given (blocks keep arriving between heartbeats): oracles (a)-(c)
        let as_given = match run_scenario(case, true, true, false, &mut out) {
            Some(r) => r,
            None => return out,
        };
        // (2) the same blocks known to the source from the start, so that the sliced and the
        // unsliced run see the same inputs at the same logical moments: oracles (a)-(d)
        let sliced = match run_scenario(case, true, true, true, &mut out) {
            Some(r) => r,
            None => return out,
        };
        let sliced = RunResult {
            paused_rounds: sliced.paused_rounds + as_given.paused_rounds,
            paused_inside_tx: sliced.paused_inside_tx + as_given.paused_inside_tx,
            touched_stable_address: sliced.touched_stable_address || as_given.touched_stable_address,
            ..sliced
        };
        if sliced.paused_rounds > 0 {
            out.class_n("paused_round", sliced.paused_rounds as u64);
        }
        if sliced.paused_inside_tx > 0 {
            out.class_n("paused_inside_transaction", sliced.paused_inside_tx as u64);
        }
        if case.evs.iter().any(|e| matches!(e, Ev::Plan(crate::hb::ReplyPlan::Split { .. }))) {
            out.class("split_reply_used");
        }
        let mut scratch = Outcome::default();
        if let Some(twin) = run_scenario(case, false, false, true, &mut scratch) {
            out.checks += 1;
            out.class("twin_compared");
            if let (Some(a), Some(b)) = (&twin.final_snapshot, &sliced.final_snapshot) {
                if let Some(d) = snapshot::diff(a, b, false, false, false) {
                    out.fail(format!("the final observable state of the sliced run differs from the unsliced run: {d}"));
                }
            }
            if twin.bookkeeping != sliced.bookkeeping {
                out.fail("the bookkeeping for unstable blocks of the sliced run differs from the unsliced run".to_string());
            }
        } else {
            out.discs.extend(scratch.discs);
        }
        if sliced.paused_inside_tx > 0 && sliced.touched_stable_address {
            out.nontrivial(fnv(format!("{:?}", case).as_bytes()));
        }
        out
    }
}
