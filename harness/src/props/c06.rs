//! C06 — Paginated UTXO answers form one consistent snapshot.
use super::common::*;
use crate::engine::{Outcome, Property, Tier};
use crate::hist::{history_brief, pick, History, World};
use crate::model::OutPt;
use crate::sut::{self, Filter, UtxosAnswer};
use proptest::prelude::*;
use serde::{Deserialize, Serialize};

pub struct C06;

fn sel_any(k: usize, len: usize) -> u16 {
    crate::hist::sel_for(k, len)
}

#[derive(Clone, Debug, Serialize, Deserialize)]
pub enum BlobMut {
    FlipBit(u16),
    Truncate(u8),
    Extend(u8),
    /// Replace the tip hash with the hash of another block ever built (selector).
    ForeignTip(u16),
    /// XOR into the 4 height bytes.
    Height(u32),
    /// Overwrite one byte of the outpoint part.
    Outpoint(u8, u8),
    Random(Vec<u8>),
}

#[derive(Clone, Debug, Serialize, Deserialize)]
pub struct Case06 {
    pub hist: History,
    /// Where in the history the walk starts.
    pub start: u16,
    pub addr: u8,
    /// Page size 1..=4 through the hook; 0 = the real endpoint (limit 1000).
    pub limit: u8,
    /// Mutations applied to page tokens seen during the walk (side requests, not part of it).
    pub blobs: Vec<BlobMut>,
    /// Filter of the first request: 0 = none, k > 0 = min_confirmations (k-1) mod (len+1), len =
    /// number of unstable best-chain blocks at that moment (so the request is inside the domain).
    #[serde(default)]
    pub conf: u8,
    /// Per-round budgets for time-sliced ingestion (empty = unsliced): a page is also requested
    /// at every pause of a stabilising block's ingestion.
    #[serde(default)]
    pub budgets: Vec<u16>,
}

struct Walk {
    addr: String,
    limit: Option<usize>,
    tip_hash: Vec<u8>,
    tip_height: u32,
    tip_id: Option<usize>,
    expected: Vec<(OutPt, u64, u32)>,
    got: Vec<(OutPt, u64, u32)>,
    next: Option<Vec<u8>>,
    pages: usize,
    interleaved_ops: usize,
    finished: bool,
    ended_by_error: bool,
}

fn request(w: &World, walk: &Walk, f: &Filter) -> sut::QResult<UtxosAnswer> {
    match walk.limit {
        Some(l) => sut::get_utxos_limit(&walk.addr, f, l),
        None => sut::get_utxos(w.cfg.net, &walk.addr, f, false),
    }
}

fn mutate(tok: &[u8], m: &BlobMut, w: &World) -> Vec<u8> {
    let mut t = tok.to_vec();
    match m {
        BlobMut::FlipBit(i) => {
            if !t.is_empty() {
                let bit = (*i as usize) % (t.len() * 8);
                t[bit / 8] ^= 1 << (bit % 8);
            }
        }
        BlobMut::Truncate(n) => {
            let keep = t.len().saturating_sub(1 + *n as usize % 72);
            t.truncate(keep);
        }
        BlobMut::Extend(n) => t.extend(std::iter::repeat(0xab).take(1 + *n as usize % 9)),
        BlobMut::ForeignTip(sel) => {
            let id = pick(*sel, w.model.blocks.len());
            if t.len() >= 32 {
                t[..32].copy_from_slice(&w.model.blocks[id].hash);
            }
        }
        BlobMut::Height(x) => {
            if t.len() >= 36 {
                for (k, b) in x.to_be_bytes().iter().enumerate() {
                    t[32 + k] ^= b;
                }
            }
        }
        BlobMut::Outpoint(pos, val) => {
            if t.len() == 72 {
                t[36 + (*pos as usize % 36)] = *val;
            }
        }
        BlobMut::Random(v) => t = v.clone(),
    }
    t
}

/// Any blob: an answer that is consistent for the tip it names, or an error; never a trap.
fn check_blob(w: &mut World, walk: &Walk, blob: &[u8], out: &mut Outcome, ctx: &str) {
    out.checks += 1;
    match request(w, walk, &Filter::Page(blob.to_vec())) {
        Err(p) => out.fail(format!("{ctx}: page blob {} trapped the call: {p}", hex::encode(blob))),
        Ok(Err(_)) => out.class("blob_rejected_with_error"),
        Ok(Ok(ans)) => {
            out.class("blob_answered");
            // consistent with the tip it names: a sub-sequence of that tip's ledger for the
            // address, each element once, descending heights, within the page size.
            let tip = match h32(&ans.tip_hash).and_then(|h| w.model.id_of(&h)) {
                Some(t) if w.model.live.contains(&t) => t,
                _ => {
                    out.fail(format!("{ctx}: blob answered for a tip that is not in the tree"));
                    return;
                }
            };
            if ans.tip_height != w.model.blocks[tip].height {
                out.fail(format!("{ctx}: blob answer has a wrong tip height"));
            }
            let full = w.model.utxos_of(&walk.addr, tip);
            let mut seen = std::collections::BTreeSet::new();
            for u in &ans.utxos {
                if !full.contains(u) {
                    out.fail(format!("{ctx}: blob answer contains an element that is not in the ledger of the tip it names"));
                    break;
                }
                if !seen.insert(u.0) {
                    out.fail(format!("{ctx}: blob answer repeats an element"));
                    break;
                }
            }
            if ans.utxos.windows(2).any(|p| p[0].2 < p[1].2) {
                out.fail(format!("{ctx}: blob answer not in descending height order"));
            }
            if let Some(l) = walk.limit {
                if ans.utxos.len() > l {
                    out.fail(format!("{ctx}: blob answer exceeds the page size"));
                }
            }
        }
    }
}

fn step_walk(w: &mut World, walk: &mut Walk, out: &mut Outcome, ctx: &str) {
    if walk.finished {
        return;
    }
    let tok = match &walk.next {
        Some(t) => t.clone(),
        None => {
            walk.finished = true;
            return;
        }
    };
    out.checks += 1;
    match request(w, walk, &Filter::Page(tok)) {
        Err(p) => {
            out.fail(format!("{ctx}: page request trapped: {p}"));
            walk.finished = true;
        }
        Ok(Err(e)) => {
            // Allowed only if the tip is in fact no longer available.
            // At a pause of a sliced ingestion the model has not yet followed the advances the
            // canister completed earlier in the same ingestion run (it is synchronised when the
            // run ends): the live tree is then the subtree of the best-chain block at the
            // canister's stable height (that every advance goes to the served chain is C03's
            // oracle).
            let k = (sut::stable_height() as usize).saturating_sub(w.model.anchor_height() as usize);
            let best = w.model.best_chain();
            let still_live = match (walk.tip_id, best.get(k)) {
                (Some(t), Some(root)) => w.model.live.contains(&t) && w.model.is_ancestor_or_self(*root, t),
                _ => false,
            };
            if k > 0 {
                out.class("walk_page_after_unsynchronised_advance");
            }
            if still_live {
                out.fail(format!("{ctx}: page request failed ({e}) although the first response's tip is still in the tree"));
            } else {
                out.class("walk_ended_tip_gone_explicit_error");
            }
            walk.finished = true;
            walk.ended_by_error = true;
        }
        Ok(Ok(ans)) => {
            walk.pages += 1;
            if ans.tip_hash != walk.tip_hash || ans.tip_height != walk.tip_height {
                out.fail(format!(
                    "{ctx}: page {} names tip {}@{} but the first response named {}@{}",
                    walk.pages, hx(&ans.tip_hash), ans.tip_height, hx(&walk.tip_hash), walk.tip_height
                ));
            }
            let cap = walk.limit.unwrap_or(1000);
            if ans.utxos.len() > cap {
                out.fail(format!("{ctx}: page has {} elements, more than the limit {cap}", ans.utxos.len()));
            }
            walk.got.extend(ans.utxos.iter().cloned());
            walk.next = ans.next_page;
            if walk.next.is_none() {
                walk.finished = true;
            }
        }
    }
}

fn finish_walk(w: &World, walk: &Walk, out: &mut Outcome, ctx: &str) {
    if walk.ended_by_error {
        // what was delivered so far must be a prefix of the expected snapshot
        let mut exp_sorted = walk.expected.clone();
        exp_sorted.sort_by(|a, b| b.2.cmp(&a.2).then(a.0.cmp(&b.0)));
        for g in &walk.got {
            if !walk.expected.contains(g) {
                out.fail(format!("{ctx}: a page delivered before the walk ended contains an element outside the first response's snapshot"));
                break;
            }
        }
        return;
    }
    out.checks += 1;
    let mut got = walk.got.clone();
    if got.windows(2).any(|p| p[0].2 < p[1].2) {
        out.fail(format!("{ctx}: concatenated pages are not in descending height order"));
    }
    got.sort();
    if got.windows(2).any(|p| p[0].0 == p[1].0) {
        out.fail(format!("{ctx}: an element is delivered twice across pages"));
    }
    if got != walk.expected {
        let extra = got.iter().filter(|g| !walk.expected.contains(g)).count();
        let missing = walk.expected.iter().filter(|e| !got.contains(e)).count();
        out.fail(format!(
            "{ctx}: following all {} pages yields {} elements, the snapshot as of the first response's tip {}@{} has {} ({} extra, {} missing) after {} interleaved operations",
            walk.pages, got.len(), hx(&walk.tip_hash), walk.tip_height, walk.expected.len(), extra, missing, walk.interleaved_ops
        ));
    }
    let _ = w;
}

impl Property for C06 {
    type Case = Case06;
    fn id(&self) -> &'static str {
        "C06"
    }
    fn strategy(&self, tier: Tier) -> BoxedStrategy<Case06> {
        let ops = match tier {
            Tier::Quick => 22,
            Tier::Thorough => 44,
        };
        let blob = prop_oneof![
            3 => any::<u16>().prop_map(BlobMut::FlipBit),
            1 => any::<u8>().prop_map(BlobMut::Truncate),
            1 => any::<u8>().prop_map(BlobMut::Extend),
            3 => any::<u16>().prop_map(BlobMut::ForeignTip),
            2 => prop_oneof![Just(1u32), Just(2u32), any::<u32>()].prop_map(BlobMut::Height),
            2 => (any::<u8>(), any::<u8>()).prop_map(|(a, b)| BlobMut::Outpoint(a, b)),
            1 => prop::collection::vec(any::<u8>(), 0..100).prop_map(BlobMut::Random),
        ];
        (
            crate::hist::history_strategy_big(ops, 3, true, true, true),
            0u16..30000,
            0u8..8,
            prop_oneof![8 => 1u8..=3, 1 => Just(0u8)],
            prop::collection::vec(blob, 0..4),
            prop_oneof![3 => Just(0u8), 2 => 1u8..=7],
            prop_oneof![3 => Just(vec![]), 2 => prop::collection::vec(1u16..6, 1..4)],
        )
            .prop_map(|(mut hist, start, addr, limit, blobs, conf, budgets)| {
                // Few scripts, so that one address collects many outputs.
                hist.cfg.pool.truncate(3);
                if !hist.cfg.pool.iter().any(|s| matches!(s, crate::chain::ScriptSpec::P2pkh(_) | crate::chain::ScriptSpec::P2wpkh(_) | crate::chain::ScriptSpec::P2tr(_) | crate::chain::ScriptSpec::P2sh(_) | crate::chain::ScriptSpec::P2wsh(_) | crate::chain::ScriptSpec::Wit { .. } | crate::chain::ScriptSpec::PrefixOf { .. })) {
                    hist.cfg.pool.push(crate::chain::ScriptSpec::P2pkh(0));
                }
                Case06 { hist, start, addr, limit, blobs, conf, budgets }
            })
            .boxed()
    }
    fn cases(&self, tier: Tier) -> u32 {
        match tier {
            Tier::Quick => 80_000,
            Tier::Thorough => 800_000,
        }
    }
    fn raw_target(&self) -> Option<(&'static str, fn(&[u8]) -> Outcome)> {
        Some(("page_blob", fuzz_blob))
    }
    fn rule(&self) -> String {
        "Histories as in C01 over a pool of <= 3 scripts; at a generated point a page walk is started for one address (first request without a filter or, in two of five cases, with min_confirmations 0..=number of unstable best-chain blocks, so that the snapshot is a cut view below the tip; page size 1..3 through the hook, or the real 1000 limit) and one further page is requested after every following operation (and, in two of five cases, at every pause of a time-sliced ingestion with budgets of 1..5 operations) (blocks on the same chain, competing forks, stabilisation, threshold changes, upgrades), the rest at the end. Oracle: the concatenation equals the model ledger as of the first response's tip (each element once, descending heights, <= limit per page, every page naming that tip), or the walk ends in an explicit error and that tip has in fact left the tree. Mutated page tokens (bit flips, truncation/extension, foreign tip hashes, height and outpoint edits, random bytes) must yield an error or an answer that is a duplicate-free, ordered sub-sequence of the ledger of the tip it names; never a trap. Non-trivial: a walk of >= 2 pages with >= 1 state-changing operation between two page requests; distinct = (tree shape at start, pages, interleaved operations, expected size) hashes.".into()
    }
    fn assumptions(&self) -> Vec<String> {
        vec!["the hook verif_get_utxos_with_limit calls the same internal function as the endpoint with a smaller page size".into()]
    }
    fn brief(&self, case: &Case06) -> serde_json::Value {
        serde_json::json!({"start": case.start, "addr": case.addr, "limit": case.limit, "blobs": format!("{:?}", case.blobs), "history": history_brief(&case.hist)})
    }
    fn required_classes(&self, _tier: Tier) -> Vec<&'static str> {
        vec![
            "walk_multi_page_with_interleaving",
            "walk_survived_fork_overtake",
            "walk_survived_stabilisation",
            "walk_ended_tip_gone_explicit_error",
            "blob_rejected_with_error",
            "blob_answered",
            "walk_across_upgrade",
            "walk_multi_page_real_1000_limit",
            "walk_started_with_min_confirmations",
            "walk_of_a_cut_view_below_the_tip",
            "walk_page_while_ingestion_paused",
        ]
    }
    fn extra_cases(&self, tier: Tier) -> Vec<Case06> {
        // addresses with more UTXOs than the real page limit, walked through the real endpoint
        // while blocks, forks and stabilisation happen in between
        use crate::hist::{Cfg, DiffMode, Op, ParentSel};
        let mut v = vec![];
        let n_cases = match tier {
            Tier::Quick => 6,
            Tier::Thorough => 60,
        };
        for k in 0..n_cases {
            let net = [crate::chain::Net::Mainnet, crate::chain::Net::Testnet, crate::chain::Net::Regtest][k % 3];
            let ext = |parent: ParentSel| Op::Extend { parent, coinbase: vec![(0, 3), (0, 2)], txs: vec![], diff: 0, dt: 30, reuse: None };
            let mut ops = vec![ext(ParentSel::BestTip), Op::BigFund { script: 0, n: 1001 + (k as u16 * 97) % 1500, diff: 0 }, ext(ParentSel::BestTip)];
            if k % 2 == 0 {
                ops.push(Op::BigFund { script: 0, n: 1100 + (k as u16 * 31) % 900, diff: 0 });
            }
            // the walk starts here (index = ops.len()-1), then: a competing fork that overtakes,
            // stabilisation, an upgrade
            let start_idx = ops.len() - 1;
            ops.push(ext(ParentSel::Any(sel_any(1, 4))));
            ops.push(ext(ParentSel::Tip(65535)));
            ops.push(ext(ParentSel::Tip(65535)));
            if k % 3 == 0 {
                ops.push(Op::Upgrade);
            }
            ops.push(ext(ParentSel::BestTip));
            ops.push(Op::SetThreshold(1));
            ops.push(ext(ParentSel::BestTip));
            let n_ops = ops.len();
            v.push(Case06 {
                hist: History { cfg: Cfg { net, threshold: 1 + (k % 4) as u8, pool: vec![crate::chain::ScriptSpec::P2wpkh(k as u8 % 4)], diff_mode: DiffMode::One, validated: false }, ops },
                start: ((start_idx * 32768) / n_ops + 1) as u16,
                addr: 0,
                limit: 0,
                blobs: vec![BlobMut::Height(1), BlobMut::ForeignTip(0)],
                conf: if k % 2 == 0 { 0 } else { 2 + (k % 3) as u8 },
                budgets: vec![],
            });
        }
        v
    }
    fn fuzz_sequences(&self) -> Vec<(&'static str, usize)> {
        vec![("/hist/ops", 40)]
    }
    fn fuzz_admissible(&self, case: &Self::Case) -> bool {
        // blocks with more than a thousand outputs make every later query of the history
        // expensive: at most two per case (the generator draws one in ~180 operations)
        case.hist.ops.iter().filter(|o| matches!(o, crate::hist::Op::BigFund { .. })).count() <= 2
    }
    fn run(&self, case: &Case06) -> Outcome {
        let mut out = Outcome::default();
        let mut w = World::new(&case.hist.cfg);
        w.slice_budgets = case.budgets.clone();
        history_classes(&case.hist, &mut out);
        let addrs = w.distinct_addresses();
        let addr = addrs[case.addr as usize % addrs.len()].clone();
        let n = case.hist.ops.len();
        let start_at = pick((case.start % 32768) * 2, n);
        let mut walk: Option<Walk> = None;
        let mut start_shape = 0u64;
        let mut overtaken = false;
        let mut stabilised = false;
        let mut upgraded = false;
        let mut filtered_c = 0u32;
        for (i, op) in case.hist.ops.iter().enumerate() {
            let mut pause_out = Outcome::default();
            let info = {
                let walk_ref = &mut walk;
                let addr_p = addr.clone();
                w.apply_with(i, op, &mut |w2: &mut World, round: u32| {
                    // one further page while the stabilising block is only partially ingested
                    if let Some(wk) = walk_ref.as_mut() {
                        if !wk.finished && wk.next.is_some() {
                            pause_out.class("walk_page_while_ingestion_paused");
                            step_walk(w2, wk, &mut pause_out, &format!("step {i} paused round {round} page walk for {addr_p}"));
                        }
                    }
                })
            };
            out.checks += pause_out.checks;
            out.discs.extend(pause_out.discs);
            for (k, v) in pause_out.classes {
                out.class_n(k, v);
            }
            if step_errors(&info, &mut out) {
                return out;
            }
            step_classes(&w, &info, &mut out);
            if let Some(wk) = walk.as_mut() {
                if !wk.finished {
                    wk.interleaved_ops += 1;
                    if let Some(t) = wk.tip_id {
                        if w.model.live.contains(&t) && !w.model.is_ancestor_or_self(t, w.model.best_tip()) {
                            overtaken = true;
                        }
                    }
                    if !info.advances.is_empty() {
                        stabilised = true;
                    }
                    if info.upgraded {
                        upgraded = true;
                    }
                    // side requests with mutated tokens
                    if let Some(tok) = wk.next.clone() {
                        if let Some(m) = case.blobs.get(wk.interleaved_ops - 1) {
                            let blob = mutate(&tok, m, &w);
                            check_blob(&mut w, wk, &blob, &mut out, &format!("step {i} mutated token {:?}", m));
                        }
                    }
                    step_walk(&mut w, wk, &mut out, &format!("step {i} page walk for {addr}"));
                }
            }
            if i == start_at && walk.is_none() {
                // tiny page sizes are only used on small sets: an address holding more than the
                // real page limit is walked with the real limit or a few hundred per page
                let expected_size = {
                    let tip = w.model.best_tip();
                    w.model.utxos_of(&addr, tip).len()
                };
                let limit = if case.limit == 0 {
                    None
                } else if expected_size > 60 {
                    if case.limit % 2 == 0 { None } else { Some(150 * case.limit as usize) }
                } else {
                    Some(case.limit as usize)
                };
                let mut wk = Walk {
                    addr: addr.clone(),
                    limit,
                    tip_hash: vec![],
                    tip_height: 0,
                    tip_id: None,
                    expected: vec![],
                    got: vec![],
                    next: None,
                    pages: 0,
                    interleaved_ops: 0,
                    finished: false,
                    ended_by_error: false,
                };
                let first = if case.conf == 0 {
                    Filter::None
                } else {
                    let len = w.model.best_chain().len() as u32;
                    Filter::MinConf((case.conf as u32 - 1) % (len + 1))
                };
                if let Filter::MinConf(c) = &first {
                    if *c >= 1 {
                        filtered_c = *c;
                    }
                }
                match request(&w, &wk, &first) {
                    Ok(Ok(ans)) => {
                        wk.tip_hash = ans.tip_hash.clone();
                        wk.tip_height = ans.tip_height;
                        wk.tip_id = h32(&ans.tip_hash).and_then(|h| w.model.id_of(&h));
                        match wk.tip_id {
                            Some(t) => wk.expected = w.model.utxos_of(&addr, t),
                            None => out.fail(format!("step {i}: first response names an unknown tip")),
                        }
                        wk.got = ans.utxos.clone();
                        wk.pages = 1;
                        wk.next = ans.next_page;
                        wk.finished = wk.next.is_none();
                        start_shape = shape(&w, &[]);
                    }
                    Ok(Err(e)) => out.fail(format!("step {i}: first page request failed: {e}")),
                    Err(p) => out.fail(format!("step {i}: first page request trapped: {p}")),
                }
                walk = Some(wk);
            }
        }
        if let Some(mut wk) = walk {
            let mut guard = 0;
            while !wk.finished && guard < 100_000 {
                // remaining mutated tokens
                step_walk(&mut w, &mut wk, &mut out, &format!("end of history page walk for {addr}"));
                guard += 1;
            }
            finish_walk(&w, &wk, &mut out, &format!("page walk for {addr} started at step {start_at}"));
            if wk.pages >= 2 && wk.limit.is_none() {
                out.class("walk_multi_page_real_1000_limit");
            }
            if wk.pages >= 2 && wk.interleaved_ops >= 1 {
                out.class("walk_multi_page_with_interleaving");
                if overtaken && !wk.ended_by_error {
                    out.class("walk_survived_fork_overtake");
                }
                if stabilised && !wk.ended_by_error {
                    out.class("walk_survived_stabilisation");
                }
                if upgraded {
                    out.class("walk_across_upgrade");
                }
                if filtered_c >= 1 {
                    out.class("walk_started_with_min_confirmations");
                    if wk.tip_id.map(|t| t != w.model.best_tip()).unwrap_or(false) && !wk.ended_by_error {
                        out.class("walk_of_a_cut_view_below_the_tip");
                    }
                }
                out.nontrivial(crate::engine::fnv(
                    format!("{}-{}-{}-{}-{}-{}", start_shape, wk.pages, wk.interleaved_ops, wk.expected.len(), overtaken, stabilised).as_bytes(),
                ));
            }
        }
        out
    }
}

fn fuzz_world() -> World {
    use crate::hist::{Cfg, DiffMode, Op, ParentSel, TxSpec};
    let cfg = Cfg {
        net: crate::chain::Net::Regtest,
        threshold: 2,
        pool: vec![crate::chain::ScriptSpec::P2pkh(0), crate::chain::ScriptSpec::P2wpkh(1)],
        diff_mode: DiffMode::One,
        validated: false,
    };
    let mut w = World::new(&cfg);
    let ext = |parent: ParentSel, txs: Vec<TxSpec>| Op::Extend { parent, coinbase: vec![(0, 3), (1, 2), (0, 1)], txs, diff: 0, dt: 10, reuse: None };
    let tx = TxSpec { inputs: vec![1000, 40000], outs: vec![(0, 5), (1, 5), (0, 0)], fee_permille: 10, witness: None };
    let ops = vec![
        ext(ParentSel::BestTip, vec![]),
        ext(ParentSel::BestTip, vec![tx.clone()]),
        ext(ParentSel::BestTip, vec![]),
        ext(ParentSel::BestTip, vec![tx.clone()]),
        ext(ParentSel::Any(crate::hist::sel_for(1, 3)), vec![tx.clone()]),
        ext(ParentSel::BestTip, vec![]),
    ];
    for (i, op) in ops.iter().enumerate() {
        let info = w.apply(i, op);
        assert!(info.errors.is_empty(), "fuzz setup failed: {:?}", info.errors);
    }
    w
}

thread_local! {
    static FUZZ_WORLD: std::cell::RefCell<Option<World>> = const { std::cell::RefCell::new(None) };
}

/// Raw entry point for the byte-level fuzz target: a fixed forked state with stable and unstable
/// funds (built once per thread: page requests do not change it); byte 0 selects address and
/// page size, the rest is the page blob.
pub fn fuzz_blob(data: &[u8]) -> Outcome {
    let mut out = Outcome::default();
    if data.is_empty() {
        return out;
    }
    FUZZ_WORLD.with(|cell| {
        let mut guard = cell.borrow_mut();
        if guard.is_none() {
            *guard = Some(fuzz_world());
        }
        let w = guard.as_mut().unwrap();
        let addrs = w.distinct_addresses();
        let addr = addrs[(data[0] & 1) as usize % addrs.len()].clone();
        let limit = match (data[0] >> 1) % 4 {
            0 => None,
            k => Some(k as usize),
        };
        let walk = Walk {
            addr,
            limit,
            tip_hash: vec![],
            tip_height: 0,
            tip_id: None,
            expected: vec![],
            got: vec![],
            next: None,
            pages: 0,
            interleaved_ops: 0,
            finished: false,
            ended_by_error: false,
        };
        check_blob(w, &walk, &data[1..], &mut out, "fuzz");
    });
    out
}

/// Valid page tokens of the fixed fuzz state (used to seed the corpus).
pub fn fuzz_blob_seeds() -> Vec<Vec<u8>> {
    let mut seeds = vec![];
    let w = fuzz_world();
    for (ai, addr) in w.distinct_addresses().iter().enumerate() {
        for l in 1..4usize {
            let mut f = Filter::None;
            for _ in 0..6 {
                match crate::sut::get_utxos_limit(addr, &f, l) {
                    Ok(Ok(ans)) => match ans.next_page {
                        Some(tok) => {
                            let mut d = vec![(ai as u8 & 1) | ((l as u8) << 1)];
                            d.extend(tok.iter());
                            seeds.push(d);
                            f = Filter::Page(tok);
                        }
                        None => break,
                    },
                    _ => break,
                }
            }
        }
    }
    seeds.sort();
    seeds.dedup();
    seeds
}
