//! C16 — Cycles charged follow the published formula and never exceed the maximum.
use crate::chain::{Net, ScriptSpec};
use crate::engine::{fnv, Outcome, Property, Tier};
use crate::hist::{Cfg, DiffMode, Op, ParentSel, World};
use crate::sut::{self, SutConfig};
use ic_btc_canister as can;
use ic_btc_canister::runtime::verif_hooks as hooks;
use ic_btc_interface::{
    Fees, GetBalanceRequest, GetBlockHeadersRequest, GetCurrentFeePercentilesRequest, GetUtxosRequest,
    SendTransactionRequest, UtxosFilterInRequest,
};
use proptest::prelude::*;
use serde::{Deserialize, Serialize};

pub struct C16;

#[derive(Clone, Copy, Debug, Serialize, Deserialize, PartialEq, Eq)]
pub enum Endpoint {
    GetUtxos,
    GetUtxosQuery,
    GetBalance,
    GetBalanceQuery,
    GetBlockHeaders,
    FeePercentiles,
    SendTransaction,
}

#[derive(Clone, Copy, Debug, Serialize, Deserialize, PartialEq, Eq)]
pub enum Variant {
    Ok,
    /// get_utxos / get_balance: malformed address; headers: start beyond the tip; send: garbage.
    RequestError,
    /// get_utxos / get_balance: min_confirmations too large; headers: end < start.
    RequestError2,
    /// get_utxos: malformed page blob / page for an unknown tip; others as RequestError.
    RequestError3,
}

#[derive(Clone, Copy, Debug, Serialize, Deserialize, PartialEq, Eq)]
pub enum Attach {
    Plenty,
    ExactlyMaximum,
    OneBelowMaximum,
    Zero,
    /// maximum + k
    Above(u32),
}

#[derive(Clone, Debug, Serialize, Deserialize)]
pub struct Call {
    pub endpoint: Endpoint,
    pub variant: Variant,
    pub ins_sel: u8,
    pub ins_raw: u64,
    pub attach: Attach,
    pub payload_len: u16,
}

#[derive(Clone, Debug, Serialize, Deserialize)]
pub struct FeeSpec {
    /// None = the network's default table.
    pub custom: Option<[u64; 13]>,
}

#[derive(Clone, Debug, Serialize, Deserialize)]
pub struct Case16 {
    pub net: Net,
    pub fees: FeeSpec,
    pub calls: Vec<Call>,
}

fn default_fees(net: Net) -> Fees {
    match net {
        Net::Mainnet => Fees::mainnet(),
        Net::Testnet => Fees::testnet(),
        Net::Regtest => Fees::default(),
    }
}

fn fees_of(net: Net, spec: &FeeSpec) -> Fees {
    match spec.custom {
        None => default_fees(net),
        Some(v) => {
            let f = |x: u64| x as u128;
            // order maxima after bases so that base <= maximum
            let (ub, um) = (f(v[0]).min(f(v[2])), f(v[0]).max(f(v[2])));
            let (hb, hm) = (f(v[9]).min(f(v[11])), f(v[9]).max(f(v[11])));
            let (bb, bm) = (f(v[3]).min(f(v[4])), f(v[3]).max(f(v[4])));
            let (pb, pm) = (f(v[5]).min(f(v[6])), f(v[5]).max(f(v[6])));
            Fees {
                get_utxos_base: ub,
                get_utxos_cycles_per_ten_instructions: f(v[1]),
                get_utxos_maximum: um,
                get_balance: bb,
                get_balance_maximum: bm,
                get_current_fee_percentiles: pb,
                get_current_fee_percentiles_maximum: pm,
                send_transaction_base: f(v[7]),
                send_transaction_per_byte: f(v[8]),
                get_block_headers_base: hb,
                get_block_headers_cycles_per_ten_instructions: f(v[10]),
                get_block_headers_maximum: hm,
            }
        }
    }
}

fn fee_value() -> impl Strategy<Value = u64> {
    prop_oneof![
        2 => Just(0u64),
        2 => Just(1u64),
        3 => 2u64..1000,
        2 => prop_oneof![Just(4u64), Just(10), Just(4_000_000), Just(10_000_000), Just(20_000_000), Just(50_000_000), Just(40_000_000), Just(100_000_000), Just(4_000_000_000), Just(10_000_000_000)],
        1 => 1_000_000_000_000u64..2_000_000_000_000,
    ]
}

/// The variable part is within one step of the cap for this instruction count.
fn ins_value(sel: u8, raw: u64, base: u128, rate: u128, maximum: u128) -> u64 {
    let room = maximum.saturating_sub(base);
    let edge = if rate == 0 { 0 } else { (room / rate).min(u64::MAX as u128 / 10) as u64 * 10 };
    match sel % 10 {
        0 => 0,
        1 => 9,
        2 => 10,
        3 => edge.saturating_sub(10),
        4 => edge,
        5 => edge.saturating_add(10),
        6 => edge.saturating_add(9),
        7 => raw % 1_000_000,
        8 => raw % 100_000_000_000,
        _ => (raw % (u64::MAX / 16)).max(1),
    }
}

fn sample_tx() -> Vec<u8> {
    let s = super::c19::TxShape { version: 2, n_in: 1, n_out: 1, witness: vec![], script_len: 10, lock_time: 0, seed: 3 };
    bitcoin::consensus::serialize(&super::c19::build_tx(&s))
}

impl Property for C16 {
    type Case = Case16;
    fn id(&self) -> &'static str {
        "C16"
    }
    fn strategy(&self, _tier: Tier) -> BoxedStrategy<Case16> {
        let call = (
            prop_oneof![
                3 => Just(Endpoint::GetUtxos),
                1 => Just(Endpoint::GetUtxosQuery),
                2 => Just(Endpoint::GetBalance),
                1 => Just(Endpoint::GetBalanceQuery),
                3 => Just(Endpoint::GetBlockHeaders),
                2 => Just(Endpoint::FeePercentiles),
                2 => Just(Endpoint::SendTransaction),
            ],
            prop_oneof![6 => Just(Variant::Ok), 2 => Just(Variant::RequestError), 2 => Just(Variant::RequestError2), 1 => Just(Variant::RequestError3)],
            any::<u8>(),
            any::<u64>(),
            prop_oneof![4 => Just(Attach::Plenty), 2 => Just(Attach::ExactlyMaximum), 2 => Just(Attach::OneBelowMaximum), 1 => Just(Attach::Zero), 1 => (1u32..1000).prop_map(Attach::Above)],
            0u16..400,
        )
            .prop_map(|(endpoint, variant, ins_sel, ins_raw, attach, payload_len)| Call { endpoint, variant, ins_sel, ins_raw, attach, payload_len });
        (
            prop_oneof![Just(Net::Mainnet), Just(Net::Testnet), Just(Net::Regtest)],
            prop_oneof![1 => Just(None), 3 => prop::array::uniform13(fee_value()).prop_map(Some)],
            prop::collection::vec(call, 1..12),
        )
            .prop_map(|(net, custom, calls)| Case16 { net, fees: FeeSpec { custom }, calls })
            .boxed()
    }
    fn cases(&self, tier: Tier) -> u32 {
        match tier {
            Tier::Quick => 150_000,
            Tier::Thorough => 1_500_000,
        }
    }
    fn rule(&self) -> String {
        "Fee tables (each field from {0, 1, small, the default tables' values, ~10^12}, base <= maximum by construction, and the three default tables) x sequences of calls on a small funded chain: each endpoint incl. query variants, success and two request-level errors each, instruction counts set through the mock counter (0, 9, 10, one step below/at/above the point where the variable part reaches maximum-base, and random magnitudes), attached cycles (plenty, exactly maximum, maximum-1, 0, maximum+k). Oracle: accepted cycles (mock ledger delta) = 0 for queries; base + min(floor(ins/10)*rate, maximum-base) for get_utxos/get_block_headers; flat fee for balance and percentiles; base + per_byte*len for send_transaction; base/flat only on request-level errors; attached < maximum => refusal with 0 accepted. Plus the exhaustive 3x5 table: ic-cdk-bitcoin-canister cost_* >= the canister's default maximum (send_transaction: for lengths 0, 1, 100, 100000, so base and per-byte both). Non-trivial: a call whose variable part is non-zero and within one step of the cap, or an error path, or a refusal; distinct = (fee table, call, outcome) hashes.".into()
    }
    fn assumptions(&self) -> Vec<String> {
        vec![
            "tables with maximum < base have no documented meaning and are excluded".into(),
            "for a malformed transaction the endpoint's ordinary fee (base + per_byte*len) is accepted: it is charged before decoding".into(),
            "the native mock never decreases msg_cycles_available after an accept".into(),
        ]
    }
    fn required_classes(&self, _tier: Tier) -> Vec<&'static str> {
        vec!["variable_part_at_cap_edge", "variable_part_capped", "refused_below_maximum", "request_error_base_only", "query_free", "default_table", "send_transaction_charged", "cdk_table_checked"]
    }
    fn fuzz_sequences(&self) -> Vec<(&'static str, usize)> {
        vec![("/calls", 11)]
    }
    fn run(&self, case: &Case16) -> Outcome {
        let mut out = Outcome::default();
        // exhaustive client-vs-canister table (cheap; checked in every case so that any seed covers it)
        for net in [Net::Mainnet, Net::Testnet, Net::Regtest] {
            let f = default_fees(net);
            let nr = net.in_request();
            out.checks += 5;
            let cu = ic_cdk_bitcoin_canister::cost_get_utxos(&GetUtxosRequest { address: String::new(), network: nr, filter: None });
            let cb = ic_cdk_bitcoin_canister::cost_get_balance(&GetBalanceRequest { address: String::new(), network: nr, min_confirmations: None });
            let cp = ic_cdk_bitcoin_canister::cost_get_current_fee_percentiles(&GetCurrentFeePercentilesRequest { network: nr });
            let ch = ic_cdk_bitcoin_canister::cost_get_block_headers(&GetBlockHeadersRequest { start_height: 0, end_height: None, network: nr });
            if cu < f.get_utxos_maximum {
                out.fail(format!("{net:?}: client attaches {cu} to get_utxos, the canister's default maximum is {}", f.get_utxos_maximum));
            }
            if cb < f.get_balance_maximum {
                out.fail(format!("{net:?}: client attaches {cb} to get_balance, maximum {}", f.get_balance_maximum));
            }
            if cp < f.get_current_fee_percentiles_maximum {
                out.fail(format!("{net:?}: client attaches {cp} to get_current_fee_percentiles, maximum {}", f.get_current_fee_percentiles_maximum));
            }
            if ch < f.get_block_headers_maximum {
                out.fail(format!("{net:?}: client attaches {ch} to get_block_headers, maximum {}", f.get_block_headers_maximum));
            }
            for len in [0usize, 1, 100, 100_000] {
                let cs = ic_cdk_bitcoin_canister::cost_send_transaction(&SendTransactionRequest { network: nr, transaction: vec![0; len] });
                let need = f.send_transaction_base + f.send_transaction_per_byte * len as u128;
                if cs < need {
                    out.fail(format!("{net:?}: client attaches {cs} to send_transaction of {len} bytes, the canister charges {need}"));
                }
            }
            out.class("cdk_table_checked");
        }

        let fees = fees_of(case.net, &case.fees);
        if case.fees.custom.is_none() {
            out.class("default_table");
        }
        let cfg = Cfg { net: case.net, threshold: 2, pool: vec![ScriptSpec::P2pkh(0)], diff_mode: DiffMode::One, validated: false };
        let mut sc = SutConfig::new(case.net, 2);
        sc.fees = Some(fees.clone());
        let mut w = World::new_with(&cfg, sc);
        for k in 0..4 {
            let info = w.apply(k, &Op::Extend { parent: ParentSel::BestTip, coinbase: vec![(0, 5)], txs: vec![], diff: 0, dt: 1, reuse: None });
            if !info.errors.is_empty() {
                out.fail(format!("setup failed: {:?}", info.errors));
                return out;
            }
        }
        let addr = w.addrs[0].clone().unwrap();
        let nr = case.net.in_request();
        let tip = w.model.blocks[w.model.best_tip()].height;
        for (ci, c) in case.calls.iter().enumerate() {
            let (base, rate, maximum) = match c.endpoint {
                Endpoint::GetUtxos | Endpoint::GetUtxosQuery => (fees.get_utxos_base, fees.get_utxos_cycles_per_ten_instructions, fees.get_utxos_maximum),
                Endpoint::GetBlockHeaders => (fees.get_block_headers_base, fees.get_block_headers_cycles_per_ten_instructions, fees.get_block_headers_maximum),
                Endpoint::GetBalance | Endpoint::GetBalanceQuery => (fees.get_balance, 0, fees.get_balance_maximum),
                Endpoint::FeePercentiles => (fees.get_current_fee_percentiles, 0, fees.get_current_fee_percentiles_maximum),
                Endpoint::SendTransaction => (fees.send_transaction_base, fees.send_transaction_per_byte, 0),
            };
            let ins = ins_value(c.ins_sel, c.ins_raw, base, rate, maximum);
            let payload: Vec<u8> = match c.variant {
                Variant::Ok => sample_tx(),
                _ => vec![0xee; c.payload_len as usize],
            };
            let send_fee = fees.send_transaction_base + fees.send_transaction_per_byte * payload.len() as u128;
            let required = if c.endpoint == Endpoint::SendTransaction { send_fee } else { maximum };
            let attached: u128 = match c.attach {
                Attach::Plenty => u128::MAX / 2,
                Attach::ExactlyMaximum => required,
                Attach::OneBelowMaximum => required.saturating_sub(1),
                Attach::Zero => 0,
                Attach::Above(k) => required + k as u128,
            };
            let is_query = matches!(c.endpoint, Endpoint::GetUtxosQuery | Endpoint::GetBalanceQuery);
            hooks::set_cycles_available(Some(attached));
            hooks::cycles_accepted_reset();
            hooks::set_performance_counter_step(0);
            hooks::set_performance_counter(ins);
            out.checks += 1;
            // (panicked?, request-level error?)
            let res: Result<bool, String> = sut::guarded(|| match c.endpoint {
                Endpoint::GetUtxos | Endpoint::GetUtxosQuery => {
                    let req = GetUtxosRequest {
                        address: if c.variant == Variant::RequestError { "nonsense".into() } else { addr.clone() },
                        network: nr,
                        filter: match c.variant {
                            Variant::RequestError2 => Some(UtxosFilterInRequest::MinConfirmations(1000)),
                            Variant::RequestError3 => Some(UtxosFilterInRequest::Page(serde_bytes::ByteBuf::from(vec![7u8; if c.payload_len % 2 == 0 { 72 } else { c.payload_len as usize % 100 }]))),
                            _ => None,
                        },
                    };
                    if is_query { can::get_utxos_query(req).is_err() } else { can::get_utxos(req).is_err() }
                }
                Endpoint::GetBalance | Endpoint::GetBalanceQuery => {
                    let req = GetBalanceRequest {
                        address: if matches!(c.variant, Variant::RequestError | Variant::RequestError3) { "nonsense".into() } else { addr.clone() },
                        network: nr,
                        min_confirmations: if c.variant == Variant::RequestError2 { Some(1000) } else { None },
                    };
                    if is_query { can::get_balance_query(req).is_err() } else { can::get_balance(req).is_err() }
                }
                Endpoint::GetBlockHeaders => {
                    let req = match c.variant {
                        Variant::Ok => GetBlockHeadersRequest { start_height: 0, end_height: None, network: nr },
                        Variant::RequestError | Variant::RequestError3 => GetBlockHeadersRequest { start_height: tip + 5, end_height: None, network: nr },
                        Variant::RequestError2 => GetBlockHeadersRequest { start_height: 2, end_height: Some(1), network: nr },
                    };
                    can::get_block_headers(req).is_err()
                }
                Endpoint::FeePercentiles => {
                    can::get_current_fee_percentiles(GetCurrentFeePercentilesRequest { network: nr });
                    false
                }
                Endpoint::SendTransaction => futures::executor::block_on(can::send_transaction(SendTransactionRequest { network: nr, transaction: payload.clone() })).is_err(),
            });
            let accepted = hooks::cycles_accepted();
            hooks::set_cycles_available(None);
            hooks::set_performance_counter(0);
            let desc = format!("call {ci} {:?}/{:?} ins={ins} attached={attached} fees(base={base}, rate={rate}, maximum={maximum})", c.endpoint, c.variant);
            let expect_error = c.variant != Variant::Ok && c.endpoint != Endpoint::FeePercentiles;
            let mut nontrivial = false;
            if is_query {
                out.class("query_free");
                if accepted != 0 {
                    out.fail(format!("{desc}: a query variant accepted {accepted} cycles"));
                }
                if res.is_err() {
                    out.fail(format!("{desc}: query variant trapped: {:?}", res));
                }
            } else if attached < required {
                out.class("refused_below_maximum");
                nontrivial = true;
                if res.is_ok() {
                    out.fail(format!("{desc}: a call carrying less than the required {required} was not refused"));
                }
                if accepted != 0 {
                    out.fail(format!("{desc}: a refused call was charged {accepted}"));
                }
            } else {
                match &res {
                    Err(p) => out.fail(format!("{desc}: trapped although enough cycles were attached: {p}")),
                    Ok(is_err) => {
                        if *is_err != expect_error {
                            out.fail(format!("{desc}: harness expectation about the request outcome is off (error={is_err})"));
                        }
                        let want = match c.endpoint {
                            Endpoint::GetUtxos | Endpoint::GetBlockHeaders => {
                                if *is_err {
                                    out.class("request_error_base_only");
                                    nontrivial = true;
                                    base
                                } else {
                                    let var = (ins / 10) as u128 * rate;
                                    let cap = maximum - base;
                                    if var > cap {
                                        out.class("variable_part_capped");
                                    }
                                    if var > 0 && (var + rate >= cap && var <= cap + rate) {
                                        out.class("variable_part_at_cap_edge");
                                        nontrivial = true;
                                    }
                                    base + var.min(cap)
                                }
                            }
                            Endpoint::GetBalance | Endpoint::FeePercentiles => {
                                if *is_err {
                                    out.class("request_error_base_only");
                                    nontrivial = true;
                                }
                                base
                            }
                            Endpoint::SendTransaction => {
                                out.class("send_transaction_charged");
                                if *is_err {
                                    nontrivial = true;
                                }
                                send_fee
                            }
                            _ => 0,
                        };
                        if accepted != want {
                            out.fail(format!("{desc}: accepted {accepted} cycles, the published formula gives {want}"));
                        }
                        if c.endpoint != Endpoint::SendTransaction && accepted > maximum {
                            out.fail(format!("{desc}: accepted {accepted} exceeds the maximum {maximum}"));
                        }
                    }
                }
            }
            if nontrivial {
                out.nontrivial(fnv(format!("{:?}-{:?}-{}-{}-{}-{}-{}", c.endpoint, c.variant, ins, attached, base, rate, maximum).as_bytes()));
            }
        }
        hooks::set_cycles_available(None);
        out
    }
}
