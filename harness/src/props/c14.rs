//! C14 — Data endpoints are gated by access flag, network and sync status.
use super::common::*;
use crate::chain::Net;
use crate::engine::{fnv, Outcome, Property, Tier};
use crate::hb::{hb_cfg, mine_strategy, HbWorld, MineSpec, ReplyPlan};
use crate::sut::{self, SutConfig};
use ic_btc_canister as can;
use ic_btc_canister::runtime::verif_hooks as hooks;
use ic_btc_interface::{
    Flag, GetBalanceRequest, GetBlockHeadersRequest, GetCurrentFeePercentilesRequest, GetUtxosRequest, NetworkInRequest,
    SendTransactionRequest, SetConfigRequest,
};
use proptest::prelude::*;
use serde::{Deserialize, Serialize};

pub struct C14;

#[derive(Clone, Debug, Serialize, Deserialize)]
pub enum Ev14 {
    Mine(MineSpec),
    Plan { max_blocks: u8, announce: u8 },
    /// The next block is delivered in `pages`+1 pieces; the headers are announced with the
    /// first (partial) piece.
    PlanPaged { pages: u8, cut: u16, announce: u8 },
    Beat,
    SetFlags { api: Option<bool>, sync: Option<bool> },
    Upgrade,
    /// Probe every endpoint with this network spelling (0..6).
    Probe(u8),
}

#[derive(Clone, Debug, Serialize, Deserialize)]
pub struct Case14Hb {
    pub threshold: u8,
    pub pool: Vec<crate::chain::ScriptSpec>,
    pub api: bool,
    pub sync: bool,
    pub evs: Vec<Ev14>,
}

/// Direct driver on regtest with per-block difficulties (heavier-shorter branches), announced
/// headers inserted through `state::insert_next_block_headers`.
#[derive(Clone, Debug, Serialize, Deserialize)]
pub enum EvD {
    Op(crate::hist::Op),
    /// Mine `n` chained blocks on the selected block and announce their headers only.
    Announce { parent: crate::hist::ParentSel, n: u8 },
    /// Deliver the block of an announced header whose parent is in the tree.
    Deliver(u16, u8),
    SetFlags { api: Option<bool>, sync: Option<bool> },
}

#[derive(Clone, Debug, Serialize, Deserialize)]
pub struct Direct14 {
    pub threshold: u8,
    pub diff_mode: crate::hist::DiffMode,
    pub api: bool,
    pub sync: bool,
    pub evs: Vec<EvD>,
}

#[derive(Clone, Debug, Serialize, Deserialize)]
pub enum Case14 {
    Hb(Case14Hb),
    Direct(Direct14),
}

fn spelling(k: u8) -> (NetworkInRequest, Net) {
    match k % 6 {
        0 => (NetworkInRequest::Regtest, Net::Regtest),
        1 => (NetworkInRequest::regtest, Net::Regtest),
        2 => (NetworkInRequest::Mainnet, Net::Mainnet),
        3 => (NetworkInRequest::mainnet, Net::Mainnet),
        4 => (NetworkInRequest::Testnet, Net::Testnet),
        _ => (NetworkInRequest::testnet, Net::Testnet),
    }
}

fn digest() -> String {
    can::with_state(|s| {
        format!(
            "{:?}|{}|{:?}|{:?}|{}",
            s.unstable_blocks.verif_bookkeeping(),
            s.metrics.send_transaction_count,
            s.fee_percentiles_cache,
            (s.syncing_state.num_get_successors_rejects, s.syncing_state.num_block_deserialize_errors, s.syncing_state.num_insert_block_errors),
            s.stable_height()
        )
    })
}

struct Stats {
    refused_sync: u64,
    announced_on_fork: bool,
}

#[allow(clippy::too_many_arguments)]
fn probe(world: &crate::hist::World, max_ann: Option<u32>, api: bool, sync: bool, k: u8, addr: &str, out: &mut Outcome, ctx: &str, st: &mut Stats) {
    let (nr, names) = spelling(k);
    let best_h = world.model.blocks[world.model.best_tip()].height;
    let not_synced = sync && max_ann.map(|m| m > best_h + 2).unwrap_or(false);
    let base_refuse = !api || names != Net::Regtest;
    // cross-check the model of announced headers against the hook (diagnostic for the harness)
    let stored_max = can::with_state(|s| s.unstable_blocks.verif_bookkeeping().next_headers.iter().map(|(_, h)| *h).max());
    if stored_max != max_ann {
        out.fail(format!("{ctx}: the highest validated announced header held by the canister is at {:?}; from the headers the block source announced (validated, connected, not yet arrived, above the stable height) it must be {:?}", stored_max, max_ann));
    }
    let tx = {
        let s = super::c19::TxShape { version: 2, n_in: 1, n_out: 1, witness: vec![], script_len: 5, lock_time: 0, seed: k };
        bitcoin::consensus::serialize(&super::c19::build_tx(&s))
    };
    let calls: Vec<(&str, bool, Box<dyn Fn() -> bool>)> = vec![
        ("bitcoin_get_utxos", true, Box::new({ let a = addr.to_string(); move || can::get_utxos(GetUtxosRequest { address: a.clone(), network: nr, filter: None }).is_ok() })),
        ("bitcoin_get_utxos_query", true, Box::new({ let a = addr.to_string(); move || can::get_utxos_query(GetUtxosRequest { address: a.clone(), network: nr, filter: None }).is_ok() })),
        ("bitcoin_get_balance", true, Box::new({ let a = addr.to_string(); move || can::get_balance(GetBalanceRequest { address: a.clone(), network: nr, min_confirmations: None }).is_ok() })),
        ("bitcoin_get_balance_query", true, Box::new({ let a = addr.to_string(); move || can::get_balance_query(GetBalanceRequest { address: a.clone(), network: nr, min_confirmations: None }).is_ok() })),
        ("bitcoin_get_block_headers", true, Box::new(move || can::get_block_headers(GetBlockHeadersRequest { start_height: 0, end_height: None, network: nr }).is_ok())),
        ("bitcoin_get_current_fee_percentiles", true, Box::new(move || { can::get_current_fee_percentiles(GetCurrentFeePercentilesRequest { network: nr }); true })),
        ("bitcoin_send_transaction", false, Box::new({ let tx = tx.clone(); move || futures::executor::block_on(can::send_transaction(SendTransactionRequest { network: nr, transaction: tx.clone() })).is_ok() })),
    ];
    for (name, sync_gated, f) in calls {
        let refuse = base_refuse || (sync_gated && not_synced);
        let before = digest();
        hooks::cycles_accepted_reset();
        hooks::take_sent_transactions();
        hooks::performance_counter_reset();
        out.checks += 1;
        let r = sut::guarded(|| f());
        let accepted = hooks::cycles_accepted();
        let sent = hooks::take_sent_transactions();
        match (&r, refuse) {
            (Ok(_), true) => out.fail(format!(
                "{ctx}: {name} answered although it must refuse (api_access={api}, request names {:?}, sync gate={sync}, highest announced header {:?}, best height {best_h})",
                names, max_ann
            )),
            (Err(p), false) => out.fail(format!(
                "{ctx}: {name} refused/trapped although it must answer (api_access={api}, sync gate={sync}, highest announced header {:?}, best height {best_h}): {p}",
                max_ann
            )),
            (Err(_), true) => {
                let after = digest();
                if after != before || accepted != 0 || !sent.is_empty() {
                    out.fail(format!("{ctx}: the refused call {name} had an effect (state changed: {}, cycles accepted: {accepted}, forwarded: {})", after != before, sent.len()));
                }
                if api && names == Net::Regtest {
                    st.refused_sync += 1;
                }
            }
            (Ok(ok), false) => {
                if !*ok {
                    out.fail(format!("{ctx}: {name} answered with a request-level error for a well-formed request"));
                }
                if name == "bitcoin_send_transaction" && not_synced && api && names == Net::Regtest {
                    out.class("send_transaction_exempt_from_sync_rule");
                }
            }
        }
    }
    // get_config and get_blockchain_info answer regardless
    out.checks += 2;
    if let Err(p) = sut::guarded(can::get_config) {
        out.fail(format!("{ctx}: get_config trapped: {p}"));
    }
    if let Err(p) = sut::info() {
        out.fail(format!("{ctx}: get_blockchain_info trapped: {p}"));
    }
    // the metrics endpoint answers regardless, without effect, and describes the same state
    out.checks += 1;
    let before = digest();
    let url = if k % 2 == 0 { "/metrics" } else { "/metrics?probe=1" };
    match sut::http(url) {
        Err(p) => out.fail(format!("{ctx}: the metrics endpoint trapped (api_access={api}, sync gate={sync}): {p}")),
        Ok((code, m)) => {
            if code != 200 {
                out.fail(format!("{ctx}: the metrics endpoint answered with status {code} (api_access={api}, sync gate={sync})"));
            } else {
                if !api || not_synced {
                    out.class("metrics_answered_while_data_endpoints_refuse");
                }
                let want_synced = !max_ann.map(|m| m > best_h + 2).unwrap_or(false);
                let checks: [(&str, f64); 3] = [
                    ("main_chain_height", best_h as f64),
                    ("is_synced", if want_synced { 1.0 } else { 0.0 }),
                    ("api_access{flag=\"enabled\"}", if api { 1.0 } else { 0.0 }),
                ];
                for (name, want) in checks {
                    out.checks += 1;
                    if sut::metric(&m, name) != Some(want) {
                        out.fail(format!("{ctx}: metrics endpoint reports {name} = {:?}, the state it describes has {want} (highest announced header {:?}, best height {best_h})", sut::metric(&m, name), max_ann));
                    }
                }
            }
        }
    }
    if digest() != before {
        out.fail(format!("{ctx}: a request to the metrics endpoint changed the state"));
    }
    if k % 3 == 0 {
        out.checks += 1;
        match sut::http("/other") {
            Ok((404, _)) => {}
            other => out.fail(format!("{ctx}: http_request for an unknown path: {:?}", other.map(|x| x.0))),
        }
    }
    if not_synced {
        out.class("not_synced_state");
        if max_ann == Some(best_h + 3) {
            out.class("announced_exactly_3_ahead");
        }
    }
    if sync && max_ann == Some(best_h + 2) {
        out.class("announced_exactly_2_ahead");
    }
}

fn run_direct(case: &Direct14) -> Outcome {
    let mut out = Outcome::default();
    run_direct_with(case, true, &mut out, &mut |_, _, _, _| {});
    out
}

/// The announced headers the canister must hold: hash -> (height, model block id).
pub type Announced = std::collections::BTreeMap<crate::model::H32, (u32, usize)>;

/// The direct-driver scenario (also used by C20 for the bookkeeping of announced headers):
/// `after_event` sees the world and the model of the announced headers after every event.
pub fn run_direct_with(
    case: &Direct14,
    probes: bool,
    out_ref: &mut Outcome,
    after_event: &mut dyn FnMut(&mut crate::hist::World, &Announced, usize, &mut Outcome),
) {
    use crate::hist::{Cfg, StepInfo, World};
    let mut out = std::mem::take(out_ref);
    let r = (|| -> Outcome {
    let cfg = Cfg { net: Net::Regtest, threshold: case.threshold, pool: vec![crate::chain::ScriptSpec::P2pkh(0), crate::chain::ScriptSpec::P2wpkh(1)], diff_mode: case.diff_mode, validated: true };
    let mut sc = SutConfig::new(cfg.net, cfg.threshold as u32);
    sc.api_access = if case.api { Flag::Enabled } else { Flag::Disabled };
    sc.sync_gate = if case.sync { Flag::Enabled } else { Flag::Disabled };
    let mut w = World::new_with(&cfg, sc);
    let (mut api, mut sync) = (case.api, case.sync);
    let addr = w.distinct_addresses()[0].clone();
    let mut st = Stats { refused_sync: 0, announced_on_fork: false };
    // model of the announced headers: hash -> (height, model block id)
    let mut announced: std::collections::BTreeMap<crate::model::H32, (u32, usize)> = Default::default();
    out.class("direct_driver_case");
    for (i, ev) in case.evs.iter().enumerate() {
        let ctx = format!("event {i}");
        let anchor_before = w.model.anchor_height();
        match ev {
            EvD::Op(op) => {
                let info = w.apply(i, op);
                if step_errors(&info, &mut out) {
                    return out;
                }
            }
            EvD::SetFlags { api: a, sync: s } => {
                can::set_config(SetConfigRequest {
                    api_access: a.map(|b| if b { Flag::Enabled } else { Flag::Disabled }),
                    disable_api_if_not_fully_synced: s.map(|b| if b { Flag::Enabled } else { Flag::Disabled }),
                    ..Default::default()
                });
                if let Some(a) = a {
                    api = *a;
                }
                if let Some(s) = s {
                    sync = *s;
                }
            }
            EvD::Announce { parent, n } => {
                let mut p = w.resolve_parent(*parent);
                let mut blobs = vec![];
                let mut ids = vec![];
                for _ in 0..*n {
                    let (id, _, _) = w.mine_detached(p, &[(0, 1)], &[], None, 30);
                    blobs.push(crate::hb::header_blob(&crate::chain::serialize_header(&w.model.blocks[id].block.header)));
                    ids.push(id);
                    p = id;
                }
                if let Err(e) = sut::guarded(|| can::with_state_mut(|s| can::state::insert_next_block_headers(s, &blobs))) {
                    out.fail(format!("{ctx}: inserting announced headers trapped: {e}"));
                    return out;
                }
                // all headers are valid and connected (to the tree, or to the one before)
                for id in ids {
                    let b = &w.model.blocks[id];
                    announced.insert(b.hash, (b.height, id));
                }
            }
            EvD::Deliver(sel, diff) => {
                let cands: Vec<usize> = announced.values().map(|(_, id)| *id).filter(|id| w.model.blocks[*id].parent.map(|p| w.model.live.contains(&p)).unwrap_or(false)).collect();
                if !cands.is_empty() {
                    let id = cands[crate::hist::pick(*sel, cands.len())];
                    let d = match case.diff_mode {
                        crate::hist::DiffMode::One => 1,
                        crate::hist::DiffMode::Const(c) => c as u128,
                        _ => 1 + (*diff % 20) as u128,
                    };
                    let block = w.model.blocks[id].block.clone();
                    if let Err(e) = w.push_to_sut(&block, d) {
                        out.fail(format!("{ctx}: {e}"));
                        return out;
                    }
                    w.model.blocks[id].diff = d;
                    w.model.admit(id);
                    announced.remove(&w.model.blocks[id].hash);
                    let mut info = StepInfo { op_index: i, live_set_matches: true, ..Default::default() };
                    w.settle(&mut info, &mut |_, _| {});
                    if step_errors(&info, &mut out) {
                        return out;
                    }
                    out.class("announced_block_delivered");
                }
            }
        }
        if w.model.anchor_height() != anchor_before {
            let sh = w.model.anchor_height();
            let before = announced.len();
            announced.retain(|_, (h, _)| *h > sh);
            if announced.len() < before {
                out.class("announced_header_dropped_by_stable_height");
            }
        }
        let max_ann = announced.values().map(|(h, _)| *h).max();
        if probes {
            for k in [(i % 2) as u8, 2 + (i % 4) as u8] {
                probe(&w, max_ann, api, sync, k, &addr, &mut out, &ctx, &mut st);
            }
        }
        after_event(&mut w, &announced, i, &mut out);
        // classification: the best chain (by difficulty) is not the longest
        let best = w.model.best_chain();
        let longest = w.model.leaf_paths(w.model.anchor).iter().map(|p| p.len()).max().unwrap();
        if best.len() < longest && max_ann.is_some() {
            out.class("gate_state_best_chain_not_longest");
            if sync {
                let best_h = w.model.blocks[*best.last().unwrap()].height;
                let longest_h = w.model.anchor_height() + longest as u32 - 1;
                if max_ann.map(|m| m > best_h + 2 && m <= longest_h + 2).unwrap_or(false) {
                    out.class("gate_decided_by_difficulty_not_length");
                    out.nontrivial(fnv(format!("d-{api}-{sync}-{best_h}-{longest_h}-{:?}", max_ann).as_bytes()));
                }
            }
        }
    }
    if st.refused_sync > 0 {
        out.class_n("refused_by_sync_rule", st.refused_sync);
    }
    out
    })();
    *out_ref = r;
}


pub fn direct_strategy(n: usize) -> BoxedStrategy<Direct14> {
    let evd = prop_oneof![
            10 => crate::hist::op_strategy(1, true, true, false).prop_map(EvD::Op),
            5 => (crate::hist::parent_strategy(), 1u8..5).prop_map(|(parent, n)| EvD::Announce { parent, n }),
            3 => (any::<u16>(), any::<u8>()).prop_map(|(a, b)| EvD::Deliver(a, b)),
            1 => (prop_oneof![3 => Just(None), 1 => any::<bool>().prop_map(Some)], prop_oneof![2 => Just(None), 1 => any::<bool>().prop_map(Some)]).prop_map(|(api, sync)| EvD::SetFlags { api, sync }),
        ];
    (
            prop_oneof![2 => 1u8..=2, 4 => 3u8..=8],
            crate::hist::diff_mode_strategy(),
            prop_oneof![6 => Just(true), 1 => Just(false)],
            prop_oneof![5 => Just(true), 1 => Just(false)],
            prop::collection::vec(evd, 1..=n),
        )
        .prop_map(|(threshold, diff_mode, api, sync, evs)| Direct14 { threshold, diff_mode, api, sync, evs })
        .boxed()
}

impl Property for C14 {
    type Case = Case14;
    fn id(&self) -> &'static str {
        "C14"
    }
    fn strategy(&self, tier: Tier) -> BoxedStrategy<Case14> {
        let n = match tier {
            Tier::Quick => 36,
            Tier::Thorough => 70,
        };
        let ev = prop_oneof![
            8 => mine_strategy(1).prop_map(Ev14::Mine),
            5 => (1u8..3, 0u8..7).prop_map(|(max_blocks, announce)| Ev14::Plan { max_blocks, announce }),
            2 => (1u8..4, 0u16..=1000, 0u8..7).prop_map(|(pages, cut, announce)| Ev14::PlanPaged { pages, cut, announce }),
            10 => Just(Ev14::Beat),
            3 => (prop_oneof![2 => Just(None), 1 => any::<bool>().prop_map(Some)], prop_oneof![1 => Just(None), 2 => any::<bool>().prop_map(Some)]).prop_map(|(api, sync)| Ev14::SetFlags { api, sync }),
            1 => Just(Ev14::Upgrade),
            4 => (0u8..6).prop_map(Ev14::Probe),
        ];
        let hb = (
            prop_oneof![3 => 1u8..=2, 3 => 3u8..=6],
            crate::hist::pool_strategy(),
            prop_oneof![5 => Just(true), 1 => Just(false)],
            prop_oneof![3 => Just(true), 1 => Just(false)],
            prop::collection::vec(ev, 1..=n),
        )
            .prop_map(|(threshold, pool, api, sync, evs)| Case14::Hb(Case14Hb { threshold, pool, api, sync, evs }));
        let direct = direct_strategy(n).prop_map(Case14::Direct);
        prop_oneof![3 => hb, 2 => direct].boxed()
    }
    fn cases(&self, tier: Tier) -> u32 {
        match tier {
            Tier::Quick => 30_000,
            Tier::Thorough => 300_000,
        }
    }
    fn rule(&self) -> String {
        "Heartbeat-driver scenarios on regtest where the block source delivers 1..2 blocks per reply, or one block in 2..4 pages, and announces 0..6 further headers (with the complete reply, or with the first page of a paged one) (on the best chain and on forks; stale after a fork loses; removed when their block arrives or the stable height reaches them), with api_access and disable_api_if_not_fully_synced switched by set_config events and upgrades in between. After every heartbeat and at probe events every endpoint (get_utxos, get_utxos_query, get_balance, get_balance_query, get_block_headers, get_current_fee_percentiles, send_transaction) is called with the canister's network in two spellings and with the four foreign spellings. Oracle: refuse <=> api disabled, or another network named, or (sync flag on and the highest announced header, from an independent model of announced headers, is more than 2 above the best-chain height) with send_transaction exempt from the last clause; a refusal is a trap with no change of state, no cycles accepted and nothing forwarded; otherwise a well-formed request is answered; get_config, get_blockchain_info and the metrics endpoint (http_request /metrics, executed natively through stand-ins for its three system calls) always answer, the latter with status 200, without effect, and with main_chain_height / is_synced / api_access describing the same state. Two in five cases use the direct driver on regtest with per-block difficulties (heavier-but-shorter best chains), headers announced through insert_next_block_headers on any block of the tree and later delivered or left stale. Non-trivial: a probe in a state where the sync flag is on and an announced header is exactly 2 or 3 above the best height or on a non-best fork; distinct = (flags, best height, announced heights) hashes.".into()
    }
    fn assumptions(&self) -> Vec<String> {
        vec![
            "the metrics endpoint cannot run natively (ic_cdk::api::time traps off-chain): its unconditional availability is not decided here".into(),
            "announced lists contain only valid connected headers, so that 'stop at the first bad header' and 'skip bad headers' agree".into(),
        ]
    }
    fn required_classes(&self, _tier: Tier) -> Vec<&'static str> {
        vec!["not_synced_state", "announced_exactly_2_ahead", "announced_exactly_3_ahead", "send_transaction_exempt_from_sync_rule", "api_disabled_probe", "foreign_network_probe", "refused_by_sync_rule", "announced_on_losing_fork", "direct_driver_case", "metrics_answered_while_data_endpoints_refuse", "gate_decided_by_difficulty_not_length", "announced_block_delivered", "paged_reply_planned"]
    }
    fn max_shrink_iters(&self) -> u32 {
        400
    }
    fn fuzz_sequences(&self) -> Vec<(&'static str, usize)> {
        vec![("/Hb/evs", 70), ("/Direct/evs", 70)]
    }
    fn run(&self, case: &Case14) -> Outcome {
        let case = match case {
            Case14::Hb(c) => c,
            Case14::Direct(d) => return run_direct(d),
        };
        let mut out = Outcome::default();
        let cfg = hb_cfg(case.threshold, case.pool.clone());
        let mut sc = SutConfig::new(cfg.net, cfg.threshold as u32);
        sc.api_access = if case.api { Flag::Enabled } else { Flag::Disabled };
        sc.sync_gate = if case.sync { Flag::Enabled } else { Flag::Disabled };
        let mut hw = HbWorld::new(&cfg, sc);
        let (mut api, mut sync) = (case.api, case.sync);
        let addr = hw.w.distinct_addresses()[0].clone();
        let mut st = Stats { refused_sync: 0, announced_on_fork: false };
        for (i, ev) in case.evs.iter().enumerate() {
            let ctx = format!("event {i}");
            match ev {
                Ev14::Mine(m) => {
                    hw.mine(m.parent, m.prefer_tip, &m.coinbase, &m.txs, m.dt);
                }
                Ev14::Plan { max_blocks, announce } => hw.plan(ReplyPlan::Complete { max_blocks: *max_blocks, announce: *announce }),
                Ev14::PlanPaged { pages, cut, announce } => {
                    out.class("paged_reply_planned");
                    hw.plan(ReplyPlan::Split { pages: *pages, cuts: vec![*cut, 1000 - *cut / 2], announce: *announce, reject_at: None })
                }
                Ev14::SetFlags { api: a, sync: s } => {
                    can::set_config(SetConfigRequest {
                        api_access: a.map(|b| if b { Flag::Enabled } else { Flag::Disabled }),
                        disable_api_if_not_fully_synced: s.map(|b| if b { Flag::Enabled } else { Flag::Disabled }),
                        ..Default::default()
                    });
                    if let Some(a) = a {
                        api = *a;
                    }
                    if let Some(s) = s {
                        sync = *s;
                    }
                }
                Ev14::Upgrade => {
                    if let Err(p) = hw.upgrade(None) {
                        out.fail(format!("{ctx}: upgrade trapped: {p}"));
                        return out;
                    }
                }
                Ev14::Beat | Ev14::Probe(_) => {
                    if matches!(ev, Ev14::Beat) {
                        let info = hw.heartbeat(None);
                        if let Some(p) = &info.trapped {
                            out.fail(format!("{ctx}: heartbeat trapped: {p}"));
                            return out;
                        }
                        if step_errors(&info.step, &mut out) {
                            return out;
                        }
                    }
                    let ks: Vec<u8> = match ev {
                        Ev14::Probe(k) => vec![*k],
                        _ => vec![(i % 2) as u8, 2 + (i % 4) as u8],
                    };
                    for k in ks {
                        if !api {
                            out.class("api_disabled_probe");
                        }
                        if k % 6 >= 2 {
                            out.class("foreign_network_probe");
                        }
                        probe(&hw.w, hw.max_announced_height(), api, sync, k, &addr, &mut out, &ctx, &mut st);
                    }
                    // classification: an announced header on a fork that is not the best chain
                    let best = hw.w.model.best_chain();
                    let on_fork = hw.announced.keys().any(|h| {
                        hw.w.model.id_of(h).map(|id| {
                            let p = hw.w.model.blocks[id].parent.unwrap();
                            !hw.w.model.is_ancestor_or_self(p, *best.last().unwrap()) && !hw.announced.contains_key(&hw.w.model.blocks[p].hash)
                        }).unwrap_or(false)
                    });
                    if on_fork {
                        st.announced_on_fork = true;
                        out.class("announced_on_losing_fork");
                    }
                    if sync {
                        let best_h = hw.w.model.blocks[hw.w.model.best_tip()].height;
                        if let Some(m) = hw.max_announced_height() {
                            if m == best_h + 2 || m == best_h + 3 || on_fork {
                                let hs: Vec<u32> = hw.announced.values().copied().collect();
                                out.nontrivial(fnv(format!("{api}-{sync}-{best_h}-{:?}-{on_fork}", hs).as_bytes()));
                            }
                        }
                    }
                }
            }
        }
        if st.refused_sync > 0 {
            out.class_n("refused_by_sync_rule", st.refused_sync);
        }
        out
    }
}
