//! C07 — Header ranges are exact, ordered and linked across the stable boundary.
use super::common::*;
use crate::chain::{self, Net, ScriptSpec};
use crate::engine::{Outcome, Property, Tier};
use crate::hist::{history_brief, history_strategy, Cfg, DiffMode, History, Op, ParentSel, World};
use crate::sut;
use bitcoin::hashes::Hash;
use proptest::prelude::*;
use serde::{Deserialize, Serialize};

pub struct C07;

#[derive(Clone, Debug, Serialize, Deserialize)]
pub struct Case07 {
    pub hist: History,
    /// Per-round budgets for sliced ingestion (empty = unsliced).
    pub budgets: Vec<u16>,
    /// Extra linear blocks appended first (to reach the 100-header cap), 0 for most cases.
    pub prefix_len: u16,
}

/// Checks one request against the model's best chain. Returns true if the range straddles the
/// stable boundary.
pub fn check_range(w: &World, start: u32, end: Option<u32>, out: &mut Outcome, ctx: &str) -> bool {
    let m = &w.model;
    let best_tip = m.best_tip();
    let chain = m.chain_to(best_tip);
    let tip = m.blocks[best_tip].height;
    out.checks += 1;
    let r = sut::get_block_headers(w.cfg.net, start, end);
    let expect_err = start > tip || end.map(|e| e < start || e > tip).unwrap_or(false);
    match r {
        Err(p) => {
            out.fail(format!("{ctx}: get_block_headers({start},{end:?}) trapped: {p}"));
            false
        }
        Ok(Err(e)) => {
            if !expect_err {
                out.fail(format!("{ctx}: get_block_headers({start},{end:?}) refused ({e}) but the range lies within the chain of height {tip}"));
            }
            false
        }
        Ok(Ok(h)) => {
            if expect_err {
                out.fail(format!("{ctx}: get_block_headers({start},{end:?}) answered although the range is outside the chain of height {tip}"));
                return false;
            }
            let eff_end = end.unwrap_or(tip).min(start + 99);
            if h.tip_height != eff_end {
                out.fail(format!("{ctx}: get_block_headers({start},{end:?}).tip_height = {} expected {}", h.tip_height, eff_end));
            }
            let want: Vec<Vec<u8>> = (start..=eff_end)
                .map(|ht| chain::serialize_header(&m.blocks[chain[ht as usize]].block.header))
                .collect();
            if h.headers != want {
                let n = h.headers.len();
                let first_bad = h.headers.iter().zip(want.iter()).position(|(a, b)| a != b);
                out.fail(format!(
                    "{ctx}: get_block_headers({start},{end:?}) returned {n} headers, expected {} (one per height {start}..={eff_end} of the best chain); first differing position {:?}; stable height {}",
                    want.len(), first_bad, m.anchor_height()
                ));
            }
            // explicit linkage + size
            for (k, raw) in h.headers.iter().enumerate() {
                if raw.len() != 80 {
                    out.fail(format!("{ctx}: header {k} has {} bytes", raw.len()));
                    break;
                }
                if k > 0 {
                    let prev: bitcoin::block::Header = bitcoin::consensus::deserialize(&h.headers[k - 1]).unwrap();
                    let cur: bitcoin::block::Header = bitcoin::consensus::deserialize(raw).unwrap();
                    if cur.prev_blockhash.to_byte_array() != prev.block_hash().to_byte_array() {
                        out.fail(format!("{ctx}: header at position {k} does not link to the one before it"));
                        break;
                    }
                }
            }
            let ah = m.anchor_height();
            start < ah && eff_end >= ah
        }
    }
}

pub fn check_all_ranges(w: &World, i: usize, out: &mut Outcome, ctx: &str, paused: bool) {
    let m = &w.model;
    let tip = m.blocks[m.best_tip()].height;
    let forked = m.leaves().len() >= 2;
    let mut reqs: Vec<(u32, Option<u32>)> = vec![];
    if tip <= 10 {
        for s in 0..=tip + 2 {
            reqs.push((s, None));
            let lo = s.saturating_sub(1);
            for e in lo..=tip + 2 {
                reqs.push((s, Some(e)));
            }
        }
    } else {
        let ah = m.anchor_height();
        let pts = [0, 1, ah.saturating_sub(2), ah.saturating_sub(1), ah, ah + 1, tip.saturating_sub(1), tip, tip + 1, tip.saturating_sub(99), tip.saturating_sub(100), tip.saturating_sub(101)];
        for (k, s) in pts.iter().enumerate() {
            reqs.push((*s, None));
            for e in pts.iter().skip((i + k) % 3).step_by(3) {
                reqs.push((*s, Some(*e)));
            }
            reqs.push((*s, Some(*s + 99)));
            reqs.push((*s, Some(*s + 100)));
        }
    }
    for (s, e) in reqs {
        let straddle = check_range(w, s, e, out, ctx);
        if straddle {
            out.class("range_straddles_stable_boundary");
        }
        if e.unwrap_or(tip).min(tip) >= s && e.unwrap_or(tip).min(tip) - s >= 99 {
            out.class("range_hits_100_cap");
        }
        if straddle || paused || forked {
            out.nontrivial(shape(w, &[s as u64, e.map(|x| x as u64 + 1).unwrap_or(0), paused as u64]));
        }
    }
}

impl Property for C07 {
    type Case = Case07;
    fn id(&self) -> &'static str {
        "C07"
    }
    fn strategy(&self, tier: Tier) -> BoxedStrategy<Case07> {
        let ops = match tier {
            Tier::Quick => 16,
            Tier::Thorough => 36,
        };
        (
            history_strategy(ops, 3, true, true),
            prop_oneof![2 => Just(vec![]), 5 => prop::collection::vec(1u16..6, 1..5)],
            prop_oneof![30 => Just(0u16), 1 => 95u16..130],
        )
            .prop_map(|(hist, budgets, prefix_len)| Case07 { hist, budgets, prefix_len })
            .boxed()
    }
    fn cases(&self, tier: Tier) -> u32 {
        match tier {
            Tier::Quick => 15_000,
            Tier::Thorough => 150_000,
        }
    }
    fn rule(&self) -> String {
        "Histories as in C01 (optionally preceded by 95..130 linear blocks to reach the 100-header cap); stabilising blocks are ingested in slices (per-round budgets of 1..5 input/output operations through the mock instruction counter). After every operation and after every paused round, get_block_headers is asked for every (start, end) with start <= tip+2 and end in {none} u [start-1, tip+2] when tip <= 10 (a fixed sample around 0, the stable boundary, the tip and the 100 cap otherwise) and compared byte-exactly with the model best chain: count, order, 80 bytes each, prev-hash linkage, tip_height, errors for ranges outside the chain. Non-trivial: the range straddles the stable boundary, or a block is mid-ingestion, or the tree has >= 2 leaves; distinct = (tree shape, start, end, paused) hashes.".into()
    }
    fn brief(&self, case: &Case07) -> serde_json::Value {
        serde_json::json!({"budgets": case.budgets, "prefix_len": case.prefix_len, "history": history_brief(&case.hist)})
    }
    fn required_classes(&self, tier: Tier) -> Vec<&'static str> {
        let mut v = vec!["range_straddles_stable_boundary", "checked_while_ingestion_paused", "state_forked", "step_upgrade"];
        if tier == Tier::Thorough {
            v.push("range_hits_100_cap");
        }
        v
    }
    fn fuzz_sequences(&self) -> Vec<(&'static str, usize)> {
        vec![("/hist/ops", 36)]
    }
    fn run(&self, case: &Case07) -> Outcome {
        let mut out = Outcome::default();
        let mut w = World::new(&case.hist.cfg);
        history_classes(&case.hist, &mut out);
        // optional linear prefix (unsliced, for speed)
        for k in 0..case.prefix_len {
            let op = Op::Extend { parent: ParentSel::BestTip, coinbase: vec![(0, 1)], txs: vec![], diff: 0, dt: 1, reuse: None };
            let info = w.apply(10_000 + k as usize, &op);
            if step_errors(&info, &mut out) {
                return out;
            }
        }
        w.slice_budgets = case.budgets.clone();
        for (i, op) in case.hist.ops.iter().enumerate() {
            let mut pause_out = Outcome::default();
            let info = w.apply_with(i, op, &mut |w2: &mut World, round: u32| {
                pause_out.class("checked_while_ingestion_paused");
                check_all_ranges(w2, i, &mut pause_out, &format!("step {i} paused round {round}"), true);
            });
            out.checks += pause_out.checks;
            out.discs.extend(pause_out.discs);
            out.nontrivial.extend(pause_out.nontrivial);
            for (k, v) in pause_out.classes {
                out.class_n(k, v);
            }
            if step_errors(&info, &mut out) {
                return out;
            }
            step_classes(&w, &info, &mut out);
            check_all_ranges(&w, i, &mut out, &format!("step {i}"), false);
        }
        let _ = (Net::Mainnet, ScriptSpec::Empty, DiffMode::One);
        let _ = Cfg { net: Net::Mainnet, threshold: 1, pool: vec![], diff_mode: DiffMode::One, validated: false };
        out
    }
}
