//! C03 — Finality: blocks stabilise only by the difficulty rule and never revert.
use super::common::*;
use crate::chain::{self, Net};
use crate::engine::{Outcome, Property, Tier};
use crate::hist::{history_brief, history_strategy, Cfg, DiffMode, History, Op, ParentSel, StepInfo, World};
use crate::model::H32;
use crate::sut;
use bitcoin::hashes::Hash;
use proptest::prelude::*;
use serde::{Deserialize, Serialize};

pub struct C03;

#[derive(Clone, Debug, Serialize, Deserialize)]
pub enum Case03 {
    Hist(History),
    /// Long chains reaching the testnet/regtest depth bound: anchor difficulty `anchor_diff`,
    /// followers difficulty 1; `main_len` blocks on the main branch, a competing fork of
    /// `fork_len` blocks starting at height 1 (0 = none) arriving after `fork_after` main blocks.
    Long {
        net: Net,
        threshold: u16,
        main_len: u16,
        fork_len: u16,
        fork_after: u16,
        /// A short heavy branch inside the subtree of a child of the anchor, so that the
        /// subtree's heaviest chain is not its longest one (the depth bound is about the longest).
        #[serde(default)]
        nested: Option<Nested>,
    },
}

#[derive(Clone, Copy, Debug, Serialize, Deserialize)]
pub struct Nested {
    /// Branches off after this many main-branch (or fork) blocks.
    pub after: u16,
    pub len: u8,
    /// Difficulty of each of its blocks (the others have difficulty 1).
    pub diff: u16,
    /// Hangs off the competing fork instead of the main branch.
    pub in_fork: bool,
}

pub fn judge_step(w: &World, info: &StepInfo, out: &mut Outcome, recorded: &mut Vec<H32>) {
    let i = info.op_index;
    for j in &info.advances {
        out.checks += 1;
        let allowed = j.rule1 || j.rule2_impl_reading || j.rule2_natural_reading;
        if !allowed {
            out.fail(format!(
                "step {i}: the anchor advanced to a child that satisfies neither the difficulty rule nor the depth escape (siblings: {})",
                j.siblings
            ));
        }
        if !j.on_best_chain {
            out.fail(format!("step {i}: the new anchor does not lie on the chain being served"));
        }
        if j.rule1 {
            out.class("advance_by_rule1");
        } else if j.rule2_impl_reading || j.rule2_natural_reading {
            out.class("advance_by_depth_escape");
        }
        if j.siblings > 0 {
            out.class("advance_with_sibling_fork");
        }
    }
    out.checks += 1;
    if let Some(c) = info.demanded_left {
        out.fail(format!(
            "step {i}: after an ingestion opportunity a child (height {}) still satisfies the stability rule but the anchor did not advance",
            w.model.blocks[c].height
        ));
    }
    if !info.live_set_matches {
        out.fail(format!("step {i}: the set of unstable blocks differs from anchor + descendants of the model (blocks discarded at the wrong moment or kept after losing)"));
    }
    // stable prefix never changes
    let chain = w.model.chain_to(w.model.anchor);
    let stable: Vec<H32> = chain[..chain.len() - 1].iter().map(|b| w.model.blocks[*b].hash).collect();
    if stable.len() < recorded.len() {
        out.fail(format!("step {i}: stable height decreased from {} to {}", recorded.len(), stable.len()));
    }
    for (h, r) in recorded.iter().enumerate() {
        if stable.get(h) != Some(r) {
            out.fail(format!("step {i}: the block recorded at stable height {h} changed"));
            break;
        }
    }
    *recorded = stable;
}

fn check_stable_headers(w: &World, i: usize, out: &mut Outcome) {
    // What the canister serves for stable heights must be the recorded stable chain.
    let ah = w.model.anchor_height();
    if ah == 0 {
        return;
    }
    let chain = w.model.chain_to(w.model.anchor);
    let from = ah.saturating_sub(5);
    out.checks += 1;
    match sut::get_block_headers(w.cfg.net, from, Some(ah - 1)) {
        Ok(Ok(h)) => {
            for (k, raw) in h.headers.iter().enumerate() {
                let hdr: Result<bitcoin::block::Header, _> = bitcoin::consensus::deserialize(raw);
                let want = w.model.blocks[chain[from as usize + k]].hash;
                if hdr.map(|x| x.block_hash().to_byte_array()).ok() != Some(want) {
                    out.fail(format!("step {i}: header served at stable height {} is not the block that stabilised there", from as usize + k));
                }
            }
            if h.headers.len() != (ah - from) as usize {
                out.fail(format!("step {i}: get_block_headers({from},{}) returned {} headers", ah - 1, h.headers.len()));
            }
        }
        Ok(Err(e)) => out.fail(format!("step {i}: get_block_headers over stable heights failed: {e}")),
        Err(p) => out.fail(format!("step {i}: get_block_headers trapped: {p}")),
    }
}

fn run_long(net: Net, threshold: u16, main_len: u16, fork_len: u16, fork_after: u16, nested: Option<Nested>, out: &mut Outcome) {
    let cfg = Cfg {
        net,
        threshold: 1,
        pool: vec![crate::chain::ScriptSpec::P2pkh(0)],
        diff_mode: DiffMode::One,
        validated: false,
    };
    let mut sc = crate::sut::SutConfig::new(net, threshold as u32);
    sc.threshold = threshold as u32;
    let mut w = World::new_with(&cfg, sc);
    w.model.threshold = threshold as u32;
    let mut recorded: Vec<H32> = vec![];
    let mut nonce = 1u64 << 40;
    let mut step = 0usize;
    // first block: heavy (becomes the anchor quickly is NOT wanted: genesis is the anchor with
    // difficulty 1000 to make rule 1 unreachable within the depth bound)
    // genesis difficulty is fixed at 1, so instead the first child gets a huge difficulty and the
    // anchor moves onto it once rule 1 allows (immediately), after which followers have
    // difficulty 1 and only the depth escape can move the anchor further.
    let mut tip;
    let mut fork_tip: Option<usize> = None;
    let mut fork_left = fork_len;
    let mut add = |w: &mut World, parent: usize, diff: u128, out: &mut Outcome, recorded: &mut Vec<H32>, step: &mut usize| -> Option<usize> {
        nonce += 1;
        let height = w.model.blocks[parent].height + 1;
        let cb = chain::coinbase_tx(height, nonce, vec![chain::txout(1, w.scripts[0].clone())]);
        let prev = w.model.blocks[parent].block.block_hash();
        let time = w.model.blocks[parent].block.header.time + 1;
        let block = chain::build_block(net, prev, time, vec![cb], false);
        let mut info = StepInfo { op_index: *step, live_set_matches: true, pre_best_tip: w.model.best_tip(), ..Default::default() };
        if let Err(e) = w.push_to_sut(&block, diff) {
            out.fail(format!("long chain step {}: {}", *step, e));
            return None;
        }
        let id = w.model.add_block(parent, block, diff);
        w.settle(&mut info, &mut |_, _| {});
        if step_errors(&info, out) {
            return None;
        }
        judge_step(w, &info, out, recorded);
        if info.advances.iter().any(|j| !j.rule1 && (j.rule2_impl_reading || j.rule2_natural_reading)) {
            out.class("long_depth_escape_fired");
            out.nontrivial(crate::engine::fnv(format!("{:?}-{}-{}-{}-{}", net, threshold, w.model.live.len(), fork_len, fork_after).as_bytes()));
        }
        *step += 1;
        Some(id)
    };
    let heavy = 1_000_000u128;
    match add(&mut w, 0, heavy, out, &mut recorded, &mut step) {
        Some(id) => tip = id,
        None => return,
    }
    let root = tip;
    for k in 0..main_len {
        if !w.model.live.contains(&tip) {
            // the anchor moved onto the heavy nested branch and the main branch was discarded
            // (legitimately: it was the lighter one): nothing left to extend
            out.class("long_main_branch_discarded");
            break;
        }
        match add(&mut w, tip, 1, out, &mut recorded, &mut step) {
            Some(id) => tip = id,
            None => return,
        }
        if let Some(n) = nested {
            if k == n.after {
                let parent = if n.in_fork { fork_tip } else { Some(tip) };
                if let Some(mut p) = parent.filter(|p| w.model.live.contains(p)) {
                    out.class("long_nested_heavy_short_branch");
                    for _ in 0..n.len {
                        match add(&mut w, p, n.diff as u128, out, &mut recorded, &mut step) {
                            Some(id) => p = id,
                            None => return,
                        }
                    }
                }
            }
        }
        if k >= fork_after {
            // grow the competing fork one block per main block
            if fork_left > 0 {
                let parent = fork_tip.unwrap_or(root);
                if w.model.live.contains(&parent) {
                    match add(&mut w, parent, 1, out, &mut recorded, &mut step) {
                        Some(id) => fork_tip = Some(id),
                        None => return,
                    }
                }
                fork_left -= 1;
            }
        }
    }
    if net == Net::Mainnet && w.model.anchor != root {
        out.fail("long chain: mainnet anchor moved although the difficulty rule cannot be met".to_string());
    }
    out.class(match net {
        Net::Mainnet => "long_mainnet",
        Net::Testnet => "long_testnet",
        Net::Regtest => "long_regtest",
    });
}

impl Property for C03 {
    type Case = Case03;
    fn id(&self) -> &'static str {
        "C03"
    }
    fn strategy(&self, tier: Tier) -> BoxedStrategy<Case03> {
        let (ops, long_w) = match tier {
            Tier::Quick => (26, 1u32),
            Tier::Thorough => (50, 1u32),
        };
        let long = (
            prop_oneof![1 => Just(Net::Mainnet), 3 => Just(Net::Testnet), 3 => Just(Net::Regtest)],
            prop_oneof![3 => 1u16..=5, 2 => 6u16..=144, 1 => 145u16..=600],
            360u16..=520,
            prop_oneof![2 => Just(0u16), 3 => 1u16..=40, 1 => 41u16..=200],
            0u16..=300,
        )
            .prop_map(|(net, threshold, main_len, fork_len, fork_after)| (net, threshold, main_len, fork_len, fork_after));
        let nested = prop_oneof![
            1 => Just(None),
            2 => (0u16..300, 1u8..=12, 20u16..=400, any::<bool>()).prop_map(|(after, len, diff, in_fork)| Some(Nested { after, len, diff, in_fork })),
        ];
        let long = (long, nested).prop_map(|((net, threshold, main_len, fork_len, fork_after), nested)| Case03::Long { net, threshold, main_len, fork_len, fork_after, nested });
        prop_oneof![
            400 => history_strategy(ops, 1, true, true).prop_map(Case03::Hist),
            long_w => long,
        ]
        .boxed()
    }
    fn cases(&self, tier: Tier) -> u32 {
        match tier {
            Tier::Quick => 60_000,
            Tier::Thorough => 600_000,
        }
    }
    fn rule(&self) -> String {
        "Two generators. (1) Histories as in C02 with SetThreshold operations and upgrades on all networks: after every operation the observed anchor moves are judged against the model's reading of the rule on the tree as it was before the move (never early: rule 1 = child's heaviest chain >= threshold x difficulty(anchor) and lead over every sibling >= the same; testnet/regtest depth escape accepted under either reading of 'runner-up' and either rounding of the bound), never withheld (no child satisfies the rule under every reading after an ingestion opportunity), new anchor on the served chain, live set = anchor + descendants exactly, stable prefix append-only, and the headers served for stable heights are the recorded ones. (2) Long chains of 360..520 difficulty-1 blocks (optionally with a competing fork, and in two thirds of them a short heavy branch nested inside the main branch or the fork, so that a subtree's heaviest chain is not its longest) under an anchor of difficulty 10^6 so that only the adaptive depth bound can advance the anchor. Non-trivial: a step that advanced the anchor while a sibling fork existed, or a child met exactly one half of rule 1, or the depth escape fired; distinct = distinct tree-shape hashes.".into()
    }
    fn assumptions(&self) -> Vec<String> {
        vec![
            "ambiguities of the statement (runner-up when difficulty order and depth order disagree; .5 rounding of the bound) are treated as a band: accept if justified under either reading, demand only if justified under both".into(),
        ]
    }
    fn brief(&self, case: &Case03) -> serde_json::Value {
        match case {
            Case03::Hist(h) => history_brief(h),
            other => serde_json::to_value(other).unwrap(),
        }
    }
    fn required_classes(&self, _tier: Tier) -> Vec<&'static str> {
        vec!["advance_by_rule1", "advance_with_sibling_fork", "half_rule1_only", "threshold_changed", "long_depth_escape_fired", "long_nested_heavy_short_branch"]
    }
    fn max_shrink_iters(&self) -> u32 {
        600
    }
    fn extra_cases(&self, tier: Tier) -> Vec<Case03> {
        // exhaustive: every fork tree (shape x arrival order) x difficulties in {1,2,3} x thresholds 1..3
        let mut v = vec![];
        let nmax = match tier {
            Tier::Quick => 4,
            Tier::Thorough => 6,
        };
        for n in 2..=nmax {
            for t in 1..=3u8 {
                let net = [Net::Mainnet, Net::Testnet, Net::Regtest][(n + t as usize) % 3];
                if tier == Tier::Thorough && n == 6 && t == 3 {
                    continue;
                }
                v.extend(crate::hist::exhaustive_trees(n, net, t).into_iter().map(Case03::Hist));
            }
        }
        v
    }
    fn fuzz_sequences(&self) -> Vec<(&'static str, usize)> {
        vec![("/Hist/ops", 50)]
    }
    fn run(&self, case: &Case03) -> Outcome {
        let mut out = Outcome::default();
        match case {
            Case03::Long { net, threshold, main_len, fork_len, fork_after, nested } => {
                run_long(*net, *threshold, *main_len, *fork_len, *fork_after, *nested, &mut out);
            }
            Case03::Hist(h) => {
                let mut w = World::new(&h.cfg);
                history_classes(h, &mut out);
                let mut recorded: Vec<H32> = vec![];
                for (i, op) in h.ops.iter().enumerate() {
                    // classification of the pre-state: a child meeting exactly one half of rule 1
                    let info = w.apply(i, op);
                    if step_errors(&info, &mut out) {
                        return out;
                    }
                    step_classes(&w, &info, &mut out);
                    if matches!(op, Op::SetThreshold(_)) {
                        out.class("threshold_changed");
                    }
                    judge_step(&w, &info, &mut out, &mut recorded);
                    check_stable_headers(&w, i, &mut out);
                    let half = w.model.live_children(w.model.anchor).iter().any(|c| w.model.judge_child(*c).half_rule1_only);
                    if half {
                        out.class("half_rule1_only");
                    }
                    let adv_with_sib = info.advances.iter().any(|j| j.siblings > 0);
                    if adv_with_sib || half {
                        out.nontrivial(shape(&w, &[adv_with_sib as u64, half as u64]));
                    }
                    let _ = ParentSel::BestTip;
                }
            }
        }
        out
    }
}
