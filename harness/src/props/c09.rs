//! C09 — Upgrades are transparent at every point.
use super::common::*;
use crate::engine::{fnv, Outcome, Property, Tier};
use crate::hb::{hb_cfg, scenario_brief, scenario_strategy, Ev, HbWorld, ReplyPlan, Scenario};
use crate::snapshot::{self, Snapshot};
use crate::sut::{self, SutConfig};
use ic_btc_canister as can;
use ic_btc_interface::{Fees, Flag, SetConfigRequest};
use proptest::prelude::*;
use serde::{Deserialize, Serialize};

pub struct C09;

#[derive(Clone, Debug, Serialize, Deserialize)]
pub struct ArgSpec {
    pub threshold: Option<u8>,
    pub syncing: Option<bool>,
    pub api_access: Option<bool>,
    pub sync_gate: Option<bool>,
    pub lazy: Option<bool>,
    pub burn: Option<bool>,
    pub fees: Option<u32>,
    pub watchdog: Option<Option<u8>>,
}

#[derive(Clone, Debug, Serialize, Deserialize)]
pub struct Case09 {
    pub scenario: Scenario,
    pub final_arg: Option<ArgSpec>,
}

fn flag(b: bool) -> Flag {
    if b {
        Flag::Enabled
    } else {
        Flag::Disabled
    }
}

fn to_request(a: &ArgSpec) -> SetConfigRequest {
    SetConfigRequest {
        stability_threshold: a.threshold.map(|t| t.max(1) as u128),
        syncing: a.syncing.map(flag),
        fees: a.fees.map(|f| Fees {
            get_utxos_base: f as u128,
            get_utxos_cycles_per_ten_instructions: 1,
            get_utxos_maximum: f as u128 + 1000,
            get_balance: f as u128 / 2,
            get_balance_maximum: f as u128,
            ..Fees::default()
        }),
        api_access: a.api_access.map(flag),
        disable_api_if_not_fully_synced: a.sync_gate.map(flag),
        watchdog_canister: a.watchdog.map(|w| w.map(|b| candid::Principal::from_slice(&[b, 1, 2]))),
        lazily_evaluate_fee_percentiles: a.lazy.map(flag),
        burn_cycles: a.burn.map(flag),
    }
}

struct Run {
    seq: Vec<Snapshot>,
    final_snapshot: Snapshot,
    upgrades_mid_fetch: usize,
    upgrades_mid_ingestion: usize,
    upgrades_forked: usize,
    upgrades: usize,
}

/// The contribution of the unstable best-chain blocks to utxos_length that is still held in
/// memory: blocks admitted since the last upgrade (the others already lost theirs, F6).
fn expected_unstable_delta(hw: &HbWorld, held: &std::collections::BTreeSet<usize>) -> i64 {
    let best = hw.w.model.best_chain();
    best.iter().filter(|b| held.contains(b)).map(|b| hw.w.model.utxo_delta(*b)).sum()
}

fn run(case: &Case09, with_upgrades: bool, sliced: bool, out: &mut Outcome) -> Option<Run> {
    let sc = &case.scenario;
    let cfg = hb_cfg(sc.threshold, sc.pool.clone());
    let mut hw = HbWorld::new(&cfg, SutConfig::new(cfg.net, cfg.threshold as u32));
    // replies are a function of the request only, so that a re-issued request is answered the
    // same way
    // (an `Empty` reply tied to a request would repeat forever: it is mapped to a complete one)
    let plans: Vec<ReplyPlan> = sc
        .evs
        .iter()
        .filter_map(|e| if let Ev::Plan(p) = e { Some(p.clone()) } else { None })
        .map(|p| if matches!(p, ReplyPlan::Empty | ReplyPlan::Reject) { ReplyPlan::Complete { max_blocks: 1, announce: 0 } } else { p })
        .collect();
    hw.source.borrow_mut().plan_by_request = Some(if plans.is_empty() { vec![ReplyPlan::Complete { max_blocks: 2, announce: 1 }] } else { plans });
    for ev in &sc.evs {
        if let Ev::Mine(m) = ev {
            hw.mine(m.parent, m.prefer_tip, &m.coinbase, &m.txs, m.dt);
        }
    }
    let mut r = Run { seq: vec![], final_snapshot: snapshot::take(&hw.w), upgrades_mid_fetch: 0, upgrades_mid_ingestion: 0, upgrades_forked: 0, upgrades: 0 };
    r.seq.push(r.final_snapshot.clone());
    let mut budgets: Vec<Option<u16>> = vec![];
    let mut expect_initial = false;
    let held: std::cell::RefCell<std::collections::BTreeSet<usize>> = Default::default();
    held.borrow_mut().insert(0);
    let record = |hw: &HbWorld, r: &mut Run| {
        let s = snapshot::take(&hw.w);
        if r.seq.last().map(|l| snapshot::diff(l, &s, false, true, true).is_some()).unwrap_or(true) {
            r.seq.push(s);
        }
    };
    let beat = |hw: &mut HbWorld, b: Option<u16>, i: usize, out: &mut Outcome, r: &mut Run, expect_initial: &mut bool| -> bool {
        let log_before = hw.source.borrow().log.len();
        let info = hw.heartbeat(if sliced { b } else { None });
        if let Some(p) = &info.trapped {
            out.fail(format!("event {i}: heartbeat trapped: {p}"));
            return false;
        }
        if step_errors(&info.step, out) {
            return false;
        }
        held.borrow_mut().extend(info.admitted.iter().copied());
        if *expect_initial {
            if let Some(e) = hw.source.borrow().log.get(log_before) {
                out.checks += 1;
                if !matches!(e.request, can::types::GetSuccessorsRequest::Initial(_)) {
                    out.fail(format!("event {i}: the first request after an upgrade is not an initial one: {:?}", e.request));
                }
                *expect_initial = false;
            }
        }
        record(hw, r);
        true
    };
    // Fee percentiles after an upgrade: the per-block fee rates are not serialised, so the first
    // answer for every later tip is recomputed from the blocks themselves and must still be the
    // nearest-rank percentiles of the model's rates (oracle shared with C15). Observed in the
    // runs with upgrades once the first upgrade has happened, after every heartbeat that left no
    // ingestion paused; the stored answer is masked in the twin comparison.
    let mut obs = super::c15::Obs::new();
    for (i, ev) in sc.evs.iter().enumerate() {
        match ev {
            Ev::Mine(_) | Ev::Plan(_) => {}
            Ev::Beat(b) => {
                budgets.push(*b);
                if !beat(&mut hw, *b, i, out, &mut r, &mut expect_initial) {
                    return None;
                }
                if r.upgrades > 0 && !sut::is_ingesting() {
                    out.class("fee_percentiles_observed_after_upgrade");
                    super::c15::observe(&mut hw.w, i, &mut obs, out, true);
                }
            }
            Ev::Upgrade => {
                if !with_upgrades {
                    continue;
                }
                // observe the fee percentiles so that there is a stored answer the upgrade could lose
                // (through C15's oracle: a first answer for a tip is also compared with the model)
                if !sut::is_ingesting() {
                    super::c15::observe(&mut hw.w, i, &mut obs, out, false);
                }
                let fees_before = sut::fee_percentiles(hw.w.cfg.net);
                let before = snapshot::take(&hw.w);
                let (partial, paused) = can::with_state(|s| (s.syncing_state.response_to_process.is_some(), s.utxos.ingesting_block.is_some()));
                let forked = hw.w.model.leaves().len() >= 2;
                let want_delta = expected_unstable_delta(&hw, &held.borrow());
                held.borrow_mut().clear();
                if let Err(p) = hw.upgrade(None) {
                    out.fail(format!("event {i}: upgrade trapped: {p}"));
                    return None;
                }
                r.upgrades += 1;
                if partial {
                    r.upgrades_mid_fetch += 1;
                }
                if paused {
                    r.upgrades_mid_ingestion += 1;
                }
                if forked {
                    r.upgrades_forked += 1;
                }
                let mut hi = crate::hb::HbInfo::default();
                hi.step.live_set_matches = true;
                hw.sync(&mut hi);
                if step_errors(&hi.step, out) {
                    return None;
                }
                if !hi.step.live_set_matches {
                    out.fail(format!("event {i}: the set of unstable blocks changed across the upgrade"));
                }
                let after = snapshot::take(&hw.w);
                out.checks += 1;
                if let Some(d) = snapshot::diff(&before, &after, false, false, true) {
                    out.fail(format!("event {i}: an answer changed across pre_upgrade/post_upgrade (fetch in progress: {partial}, ingestion paused: {paused}): {d}"));
                }
                if before.metrics_sizes.iter().any(|(k, v)| k == "is_synced" && v == "Some(0.0)") {
                    out.class("upgrade_while_not_synced");
                }
                if before.metrics_sizes != after.metrics_sizes {
                    out.fail(format!("event {i}: the size of the stable UTXO set or the sync status reported by the metrics endpoint changed across pre_upgrade/post_upgrade (ingestion paused: {paused}): {:?} -> {:?}", before.metrics_sizes, after.metrics_sizes));
                }
                if before.utxos_length != after.utxos_length {
                    // finding F6: the per-block UTXO deltas of the unstable blocks are not
                    // serialised and default to 0 after the upgrade
                    // (the reported value is clamped at 0)
                    if before.utxos_length as i64 == (after.utxos_length as i64 + want_delta).max(0) {
                        out.known("F6-utxos-length-after-upgrade", format!("event {i}: get_blockchain_info().utxos_length dropped from {} to {} across the upgrade (= the unstable blocks' contribution {want_delta})", before.utxos_length, after.utxos_length));
                    } else {
                        out.fail(format!("event {i}: get_blockchain_info().utxos_length changed from {} to {} across the upgrade (unstable contribution {want_delta})", before.utxos_length, after.utxos_length));
                    }
                }
                let fees_after = sut::fee_percentiles(hw.w.cfg.net);
                if let Ok(v) = &fees_after {
                    let tip = *hw.w.model.best_chain().last().unwrap();
                    obs.note(tip, v.clone());
                }
                if fees_before != fees_after {
                    out.fail(format!(
                        "event {i}: get_current_fee_percentiles answered {:?} values before the upgrade and {:?} after it although the tip did not change",
                        fees_before.as_ref().map(|v| v.len()), fees_after.as_ref().map(|v| v.len())
                    ));
                }
                if fees_before.as_ref().map(|v| !v.is_empty()).unwrap_or(false) {
                    out.class("upgrade_with_stored_fee_percentiles");
                }
                let (fetching, resp) = can::with_state(|s| (s.syncing_state.is_fetching_blocks, s.syncing_state.response_to_process.is_some()));
                if fetching || resp {
                    out.fail(format!("event {i}: after the upgrade the fetch state is not reset (is_fetching={fetching}, stored response={resp})"));
                }
                expect_initial = true;
            }
        }
    }
    // drain
    let plan_pages: usize = hw.source.borrow().plan_by_request.as_ref().map(|p| p.iter().map(|x| if let ReplyPlan::Split { pages, .. } = x { *pages as usize + 4 } else { 3 }).max().unwrap_or(3)).unwrap_or(3);
    let total_ops: usize = hw.w.model.blocks.iter().map(|b| b.block.txdata.iter().map(|t| t.input.len() + t.output.len()).sum::<usize>()).sum();
    let limit = 60 + (8 + plan_pages) * hw.w.model.blocks.len() + 3 * total_ops;
    let mut quiet = 0;
    let mut n = 0;
    while quiet < 3 {
        let b = if budgets.is_empty() { None } else { budgets[n % budgets.len()] };
        let before = (sut::tree_hashes(), sut::is_ingesting());
        if !beat(&mut hw, b, 100_000 + n, out, &mut r, &mut expect_initial) {
            return None;
        }
        let after = (sut::tree_hashes(), sut::is_ingesting());
        if r.upgrades > 0 && !after.1 {
            out.class("fee_percentiles_observed_after_upgrade");
            super::c15::observe(&mut hw.w, 100_000 + n, &mut obs, out, true);
        }
        if before == after && !after.1 && hw.fully_synced() {
            quiet += 1;
        } else {
            quiet = 0;
        }
        n += 1;
        if n > limit {
            out.fail(format!("syncing did not resume/finish within {limit} heartbeats after the last event (upgrades: {})", r.upgrades));
            return None;
        }
    }
    r.final_snapshot = snapshot::take(&hw.w);
    // upgrade with a configuration argument at the end
    if with_upgrades {
        if let Some(a) = &case.final_arg {
            let req = to_request(a);
            let before_cfg = can::get_config();
            let before = snapshot::take(&hw.w);
            out.checks += 1;
            if let Err(p) = hw.upgrade(Some(to_request(a))) {
                out.fail(format!("upgrade with a configuration argument trapped: {p}"));
                return None;
            }
            let after_cfg = can::get_config();
            let expect = |name: &str, changed: bool, same: bool, out: &mut Outcome| {
                if !same && !changed {
                    out.fail(format!("upgrade argument: field {name} changed although it was not named (or did not take the named value)"));
                }
            };
            let t = req.stability_threshold.unwrap_or(before_cfg.stability_threshold);
            expect("stability_threshold", true, after_cfg.stability_threshold == t, out);
            expect("syncing", true, after_cfg.syncing == req.syncing.unwrap_or(before_cfg.syncing), out);
            expect("api_access", true, after_cfg.api_access == req.api_access.unwrap_or(before_cfg.api_access), out);
            expect("disable_api_if_not_fully_synced", true, after_cfg.disable_api_if_not_fully_synced == req.disable_api_if_not_fully_synced.unwrap_or(before_cfg.disable_api_if_not_fully_synced), out);
            expect("lazily_evaluate_fee_percentiles", true, after_cfg.lazily_evaluate_fee_percentiles == req.lazily_evaluate_fee_percentiles.unwrap_or(before_cfg.lazily_evaluate_fee_percentiles), out);
            expect("burn_cycles", true, after_cfg.burn_cycles == req.burn_cycles.unwrap_or(before_cfg.burn_cycles), out);
            expect("fees", true, after_cfg.fees == req.fees.clone().unwrap_or(before_cfg.fees.clone()), out);
            expect("watchdog_canister", true, after_cfg.watchdog_canister == req.watchdog_canister.unwrap_or(before_cfg.watchdog_canister), out);
            expect("network", true, after_cfg.network == before_cfg.network, out);
            expect("blocks_source", true, after_cfg.blocks_source == before_cfg.blocks_source, out);
            // with api access still enabled and the same threshold, all answers must be unchanged
            let neutral = a.api_access != Some(false) && a.sync_gate != Some(true) && a.fees.is_none();
            if neutral {
                let mut after = snapshot::take(&hw.w);
                after.config = before.config.clone();
                if let Some(d) = snapshot::diff(&before, &after, false, false, true) {
                    out.fail(format!("upgrade with argument {:?}: an answer other than the configuration changed: {d}", a));
                }
            }
            out.class("upgrade_with_argument");
            // a further upgrade without an argument, now from the configuration the argument
            // left behind (syncing possibly paused, gates on, other fees): nothing may change
            let cfg_before = format!("{:?}", can::get_config());
            let before2 = if neutral { Some(snapshot::take(&hw.w)) } else { None };
            out.checks += 1;
            if let Err(p) = hw.upgrade(None) {
                out.fail(format!("plain upgrade after an upgrade with argument {:?} trapped: {p}", a));
                return None;
            }
            let cfg_after = format!("{:?}", can::get_config());
            if cfg_before != cfg_after {
                out.fail(format!("a plain upgrade changed the configuration left by the argument {:?}: {cfg_before} -> {cfg_after}", a));
            }
            if let Some(b2) = before2 {
                let after2 = snapshot::take(&hw.w);
                if let Some(d) = snapshot::diff(&b2, &after2, false, false, true) {
                    out.fail(format!("plain upgrade after an upgrade with argument {:?}: {d}", a));
                }
            }
            if a.syncing == Some(false) {
                out.class("plain_upgrade_while_syncing_is_paused");
            }
        }
    }
    Some(r)
}

impl Property for C09 {
    type Case = Case09;
    fn id(&self) -> &'static str {
        "C09"
    }
    fn strategy(&self, tier: Tier) -> BoxedStrategy<Case09> {
        let evs = match tier {
            Tier::Quick => 36,
            Tier::Thorough => 64,
        };
        let arg = (
            prop_oneof![3 => Just(None), 1 => (1u8..6).prop_map(Some)],
            prop_oneof![3 => Just(None), 1 => any::<bool>().prop_map(Some)],
            prop_oneof![3 => Just(None), 1 => any::<bool>().prop_map(Some)],
            prop_oneof![3 => Just(None), 1 => any::<bool>().prop_map(Some)],
            prop_oneof![3 => Just(None), 1 => any::<bool>().prop_map(Some)],
            prop_oneof![3 => Just(None), 1 => any::<bool>().prop_map(Some)],
            prop_oneof![3 => Just(None), 1 => (0u32..100000).prop_map(Some)],
            prop_oneof![3 => Just(None), 1 => prop_oneof![Just(None), any::<u8>().prop_map(Some)].prop_map(Some)],
        )
            .prop_map(|(threshold, syncing, api_access, sync_gate, lazy, burn, fees, watchdog)| ArgSpec { threshold, syncing, api_access, sync_gate, lazy, burn, fees, watchdog });
        // `mask`: in half of the cases extra upgrades are placed right behind heartbeats that run
        // under a small budget (where a paused ingestion is most likely), one per set bit
        (scenario_strategy(evs, 3, false, true, true), prop_oneof![1 => Just(None), 1 => arg.prop_map(Some)], prop_oneof![1 => Just(0u32), 1 => any::<u32>()])
            .prop_map(move |(mut scenario, final_arg, mask)| {
                let mut out = Vec::with_capacity(scenario.evs.len() + 8);
                let mut k = 0u32;
                for e in scenario.evs.drain(..) {
                    let small = matches!(e, Ev::Beat(Some(b)) if b <= 3);
                    out.push(e);
                    if small {
                        if mask & (1 << (k % 32)) != 0 && out.len() < evs + 8 {
                            out.push(Ev::Upgrade);
                        }
                        k += 1;
                    }
                }
                scenario.evs = out;
                Case09 { scenario, final_arg }
            })
            .boxed()
    }
    fn cases(&self, tier: Tier) -> u32 {
        match tier {
            Tier::Quick => 1_200,
            Tier::Thorough => 12_000,
        }
    }
    fn rule(&self) -> String {
        "Heartbeat-driver scenarios (regtest; split and complete replies; per-heartbeat ingestion budgets) with pre_upgrade+post_upgrade inserted at generated message boundaries: after a fetch was issued and answered, with a partial response stored (k of n pages), with a complete response stored but unprocessed, while an ingestion is paused, and idle; plus an upgrade with a generated configuration argument at the end, followed by a plain upgrade from the configuration it left behind (syncing paused, gates on, other fees). Oracles: (a) the observable snapshot (config, info, all get_utxos/get_balance/header answers, stored percentiles, counters) is identical before and after the upgrade, the tree is identical, the fetch state is reset; with an argument exactly the named configuration fields change; (b) twin run without the upgrades under a block source whose reply shape is a function of the request only: the sequences of distinct observable snapshots are equal (stuttering allowed) and both reach the same final snapshot; (c) the first request after an upgrade is an initial one and syncing completes within a bound. Non-trivial: an upgrade while a partial/complete response is stored or an ingestion is paused, or with >= 2 leaves in the tree; distinct = scenario hashes.".into()
    }
    fn assumptions(&self) -> Vec<String> {
        vec![
            "a production upgrade cannot occur while a call is outstanding, so 'mid-fetch' means between pages / before processing".into(),
            "lazy fee-percentile mode: the stored percentiles depend on the heartbeat in which a tip is first seen, which legitimately differs between the twin runs".into(),
            "utxos_length is excluded from the twin comparison and checked at the upgrade itself (known finding F6)".into(),
        ]
    }
    fn brief(&self, case: &Case09) -> serde_json::Value {
        serde_json::json!({"final_arg": format!("{:?}", case.final_arg), "scenario": scenario_brief(&case.scenario)})
    }
    fn required_classes(&self, _tier: Tier) -> Vec<&'static str> {
        vec!["upgrade_with_stored_response", "upgrade_while_ingestion_paused", "upgrade_on_forked_tree", "upgrade_with_argument", "plain_upgrade_while_syncing_is_paused", "twin_sequences_compared", "upgrade_with_stored_fee_percentiles", "fee_percentiles_observed_after_upgrade"]
    }
    fn max_shrink_iters(&self) -> u32 {
        250
    }
    fn fuzz_sequences(&self) -> Vec<(&'static str, usize)> {
        vec![("/scenario/evs", 64)]
    }
    fn run(&self, case: &Case09) -> Outcome {
        let mut out = Outcome::default();
        // A: budgets honoured, with upgrades (oracles a and c at every upgrade)
        let a = match run(case, true, true, &mut out) {
            Some(r) => r,
            None => return out,
        };
        // A': unlimited budgets, with upgrades; B': unlimited budgets, without upgrades.
        // (With budgets the position of the anchor between heartbeats depends on how the
        // budget pattern lines up with the extra heartbeats an upgrade causes, and that position
        // is observable through MinConfirmationsTooLarge; the sequence comparison is therefore
        // made without budgets, the final-state comparison with and without.)
        let a2 = match run(case, true, false, &mut out) {
            Some(r) => r,
            None => return out,
        };
        let mut scratch = Outcome::default();
        let b2 = match run(case, false, false, &mut scratch) {
            Some(r) => r,
            None => {
                out.discs.extend(scratch.discs);
                return out;
            }
        };
        out.checks += 3;
        out.class("twin_sequences_compared");
        if let Some(d) = snapshot::diff(&b2.final_snapshot, &a.final_snapshot, false, true, true) {
            out.fail(format!("the sliced run with {} upgrade(s) ends in a different observable state than the run without upgrades: {d}", a.upgrades));
        }
        if let Some(d) = snapshot::diff(&b2.final_snapshot, &a2.final_snapshot, false, true, true) {
            out.fail(format!("the run with {} upgrade(s) ends in a different observable state than the run without: {d}", a2.upgrades));
        } else if a2.seq.len() != b2.seq.len() || a2.seq.iter().zip(b2.seq.iter()).any(|(x, y)| snapshot::diff(y, x, false, true, true).is_some()) {
            let pos = a2.seq.iter().zip(b2.seq.iter()).position(|(x, y)| snapshot::diff(y, x, false, true, true).is_some());
            let d = pos.and_then(|p| snapshot::diff(&b2.seq[p], &a2.seq[p], false, true, true));
            out.fail(format!(
                "the run with upgrades passes through a different sequence of observable states ({} vs {} distinct states; first difference at position {:?}: {:?})",
                a2.seq.len(), b2.seq.len(), pos, d
            ));
        }
        let a = Run {
            upgrades_mid_fetch: a.upgrades_mid_fetch + a2.upgrades_mid_fetch,
            upgrades_forked: a.upgrades_forked + a2.upgrades_forked,
            ..a
        };
        if a.upgrades_mid_fetch > 0 {
            out.class_n("upgrade_with_stored_response", a.upgrades_mid_fetch as u64);
        }
        if a.upgrades_mid_ingestion > 0 {
            out.class_n("upgrade_while_ingestion_paused", a.upgrades_mid_ingestion as u64);
        }
        if a.upgrades_forked > 0 {
            out.class_n("upgrade_on_forked_tree", a.upgrades_forked as u64);
        }
        if a.upgrades_mid_fetch + a.upgrades_mid_ingestion + a.upgrades_forked > 0 {
            out.nontrivial(fnv(format!("{:?}", case.scenario).as_bytes()));
        }
        out
    }
}
