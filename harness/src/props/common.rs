//! Oracle comparisons shared by several properties.
use crate::engine::{fnv, Outcome};
use crate::hist::{History, StepInfo, World};
use crate::model::H32;
use crate::sut::UtxosAnswer;

pub fn h32(v: &[u8]) -> Option<H32> {
    if v.len() != 32 {
        return None;
    }
    let mut a = [0u8; 32];
    a.copy_from_slice(v);
    Some(a)
}

pub fn hx(h: &[u8]) -> String {
    let mut v = h.to_vec();
    v.reverse();
    hex::encode(&v[..6.min(v.len())])
}

/// Compares a complete (all pages) UTXO answer with the model ledger as of the block the answer
/// names as tip. Returns the model id of that tip when it could be identified.
pub fn compare_utxos(
    w: &mut World,
    addr: &str,
    ans: &UtxosAnswer,
    out: &mut Outcome,
    ctx: &str,
) -> Option<usize> {
    out.checks += 1;
    let tip = match h32(&ans.tip_hash).and_then(|h| w.model.id_of(&h)) {
        Some(t) => t,
        None => {
            out.fail(format!("{ctx}: answer names an unknown tip {}", hx(&ans.tip_hash)));
            return None;
        }
    };
    if !w.model.live.contains(&tip) {
        out.fail(format!("{ctx}: answer names a tip that is not part of the current tree"));
        return Some(tip);
    }
    let th = w.model.blocks[tip].height;
    if ans.tip_height != th {
        out.fail(format!(
            "{ctx}: tip_height {} but the named tip is at height {}",
            ans.tip_height, th
        ));
    }
    // order: non-increasing heights
    if ans.utxos.windows(2).any(|p| p[0].2 < p[1].2) {
        out.fail(format!("{ctx}: heights are not in descending order"));
    }
    let expected = w.model.utxos_of(addr, tip);
    let mut got = ans.utxos.clone();
    got.sort();
    if got.windows(2).any(|p| p[0].0 == p[1].0) {
        out.fail(format!("{ctx}: an outpoint is reported more than once"));
    }
    if got != expected {
        let extra: Vec<_> = got.iter().filter(|g| !expected.contains(g)).collect();
        let missing: Vec<_> = expected.iter().filter(|e| !got.contains(e)).collect();
        out.fail(format!(
            "{ctx}: answer for {addr} as of tip {}@{} differs from the ledger: {} extra {:?}, {} missing {:?}",
            hx(&ans.tip_hash),
            th,
            extra.len(),
            extra
                .iter()
                .take(3)
                .map(|((t, v), val, h)| format!("{}:{} value={} height={}", hx(t), v, val, h))
                .collect::<Vec<_>>(),
            missing.len(),
            missing
                .iter()
                .take(3)
                .map(|((t, v), val, h)| format!("{}:{} value={} height={}", hx(t), v, val, h))
                .collect::<Vec<_>>(),
        ));
    }
    Some(tip)
}

/// A hash describing the shape of the current tree and a query, used to count distinct
/// non-trivial cases.
pub fn shape(w: &World, extra: &[u64]) -> u64 {
    let m = &w.model;
    let mut data: Vec<u8> = vec![];
    data.extend((m.anchor_height() as u64).to_le_bytes());
    data.extend((m.live.len() as u64).to_le_bytes());
    data.extend((m.leaves().len() as u64).to_le_bytes());
    data.extend((m.threshold as u64).to_le_bytes());
    data.push(match m.net {
        crate::chain::Net::Mainnet => 0,
        crate::chain::Net::Testnet => 1,
        crate::chain::Net::Regtest => 2,
    });
    // shape of the tree: (height, parent height, diff) list in pre-order is too heavy; use
    // depth profile and difficulty profile.
    for b in m.live.iter() {
        let blk = &m.blocks[*b];
        data.extend((blk.height - m.anchor_height()).to_le_bytes());
        data.extend((blk.diff as u32).to_le_bytes());
        data.extend((m.live_children(*b).len() as u8).to_le_bytes());
    }
    for e in extra {
        data.extend(e.to_le_bytes());
    }
    fnv(&data)
}

/// Errors of the run itself (unexpected panics, rejected valid blocks, ...) are violations for
/// every history-based property: "no later step fails".
pub fn step_errors(info: &StepInfo, out: &mut Outcome) -> bool {
    for e in &info.errors {
        out.fail(format!("step {}: {}", info.op_index, e));
    }
    !info.errors.is_empty()
}

pub fn history_classes(h: &History, out: &mut Outcome) {
    out.class(match h.cfg.net {
        crate::chain::Net::Mainnet => "net_mainnet",
        crate::chain::Net::Testnet => "net_testnet",
        crate::chain::Net::Regtest => "net_regtest",
    });
    if h.cfg.validated {
        out.class("driver_validated_mined");
    }
}

pub fn step_classes(w: &World, info: &StepInfo, out: &mut Outcome) {
    if info.reorg {
        out.class("step_reorg");
    }
    if info.shared_tx {
        out.class("step_shared_tx");
    }
    if info.same_block_spend {
        out.class("step_same_block_spend");
    }
    if !info.advances.is_empty() {
        out.class("step_anchor_advance");
    }
    if info.upgraded {
        out.class("step_upgrade");
    }
    if w.model.leaves().len() >= 2 {
        out.class("state_forked");
    }
}
