//! C15 — Fee percentiles are nearest-rank percentiles of recent best-chain fees.
use super::common::*;
use crate::chain::{self, Net, ScriptSpec};
use crate::engine::{Outcome, Property, Tier};
use crate::hist::{history_brief, history_strategy, Cfg, DiffMode, History, Op, StepInfo, World};
use crate::model::{percentiles, txid32};
use crate::sut;
use bitcoin::hashes::Hash;
use ic_btc_interface::Flag;
use proptest::prelude::*;
use serde::{Deserialize, Serialize};

pub struct C15;

#[derive(Clone, Debug, Serialize, Deserialize)]
pub enum Case15 {
    Hist {
        hist: History,
        lazy: bool,
        /// Observe (call the endpoint) only at steps where this bit pattern says so.
        observe_mask: u32,
    },
    /// One funding transaction with `n` outputs, then `n` single-input spenders spread over
    /// `blocks` blocks: more than 10 000 transactions on the best chain.
    Big { n: u16, blocks: u8, upgrade: bool },
    /// Eager mode through the real heartbeat: the percentiles stored at the end of a heartbeat
    /// that ran to completion follow the observation rule.
    Eager(crate::hb::Scenario),
}

pub(crate) struct Obs {
    last_tip: Option<usize>,
    last_value: Option<Vec<u64>>,
}

impl Obs {
    pub(crate) fn new() -> Self {
        Obs { last_tip: None, last_value: None }
    }
    /// An answer obtained outside `observe` (it refreshed the stored value for that tip).
    pub(crate) fn note(&mut self, tip: usize, value: Vec<u64>) {
        self.last_tip = Some(tip);
        self.last_value = Some(value);
    }
}

pub(crate) fn observe(w: &mut World, i: usize, obs: &mut Obs, out: &mut Outcome, recomputed_path: bool) -> bool {
    let best = w.model.best_chain();
    let tip = *best.last().unwrap();
    out.checks += 1;
    let got = match sut::fee_percentiles(w.cfg.net) {
        Ok(v) => v,
        Err(p) => {
            out.fail(format!("step {i}: get_current_fee_percentiles trapped: {p}"));
            return false;
        }
    };
    if !(got.is_empty() || got.len() == 101) {
        out.fail(format!("step {i}: returned {} values (must be nothing or exactly 101)", got.len()));
    }
    if got.windows(2).any(|p| p[0] > p[1]) {
        out.fail(format!("step {i}: percentiles are not non-decreasing"));
    }
    let mut nontrivial = false;
    if obs.last_tip == Some(tip) {
        // same tip -> same value
        if Some(&got) != obs.last_value.as_ref() {
            out.fail(format!("step {i}: the tip did not change but the answer did"));
        }
        out.class("same_tip_same_value");
    } else {
        let rates = w.model.fee_rates_recent_first(&best, 10_000);
        let distinct_rates = {
            let mut r = rates.clone();
            r.sort();
            r.dedup();
            r.len()
        };
        let want = if rates.is_empty() {
            out.class("new_tip_without_transactions_keeps_previous");
            obs.last_value.clone().unwrap_or_default()
        } else {
            percentiles(rates.clone())
        };
        if got != want {
            out.fail(format!(
                "step {i}: new tip at height {}: answer differs from the nearest-rank percentiles of the {} most recent best-chain fee rates (got min/median/max {:?}/{:?}/{:?}, expected {:?}/{:?}/{:?}){}",
                w.model.blocks[tip].height, rates.len(),
                got.first(), got.get(50), got.last(), want.first(), want.get(50), want.last(),
                if recomputed_path { " [recomputed-after-upgrade path]" } else { "" }
            ));
        }
        if distinct_rates >= 2 {
            out.class("ge_2_distinct_rates");
            nontrivial = true;
        }
        if recomputed_path && !rates.is_empty() {
            out.class("recomputed_after_upgrade");
            nontrivial = true;
        }
        obs.last_tip = Some(tip);
        obs.last_value = Some(got);
    }
    nontrivial
}

fn run_big(n: u16, blocks: u8, upgrade: bool, out: &mut Outcome) {
    let net = Net::Mainnet;
    let cfg = Cfg { net, threshold: 100, pool: vec![ScriptSpec::P2wpkh(0), ScriptSpec::P2pkh(1)], diff_mode: DiffMode::One, validated: false };
    let mut w = World::new(&cfg);
    let mut obs = Obs { last_tip: None, last_value: None };
    let n = n as usize;
    // block 1: coinbase with one big output; funding tx with n outputs
    let s0 = w.scripts[0].clone();
    let s1 = w.scripts[1].clone();
    let add = |w: &mut World, body: Vec<bitcoin::Transaction>, out: &mut Outcome, step: usize| -> bool {
        let p = w.model.best_tip();
        let prev = w.model.blocks[p].block.block_hash();
        let time = w.model.blocks[p].block.header.time + 1;
        let block = chain::build_block(net, prev, time, body, false);
        let mut info = StepInfo { op_index: step, live_set_matches: true, ..Default::default() };
        if let Err(e) = w.push_to_sut(&block, 1) {
            out.fail(format!("big case step {step}: {e}"));
            return false;
        }
        w.model.add_block(p, block, 1);
        w.settle(&mut info, &mut |_, _| {});
        !step_errors(&info, out)
    };
    let cb1 = chain::coinbase_tx(1, 1 << 50, vec![chain::txout(50_0000_0000, s0.clone())]);
    let fund_in = bitcoin::OutPoint { txid: bitcoin::Txid::from_byte_array(txid32(&cb1)), vout: 0 };
    let per = 50_0000_0000u64 / (n as u64 + 1);
    let fund = chain::spend_tx(&[fund_in], (0..n).map(|_| chain::txout(per, s1.clone())).collect(), Some(1), 2);
    let fund_id = bitcoin::Txid::from_byte_array(txid32(&fund));
    if !add(&mut w, vec![cb1, fund], out, 0) {
        return;
    }
    observe(&mut w, 0, &mut obs, out, false);
    let per_block = n.div_ceil(blocks.max(1) as usize);
    let mut k = 0usize;
    let mut step = 1usize;
    while k < n {
        let mut body = vec![chain::coinbase_tx(step as u32 + 1, (1 << 50) + step as u64, vec![chain::txout(1, s0.clone())])];
        for j in k..(k + per_block).min(n) {
            // fee varies with j so that the most recent 10 000 differ from the first ones
            let fee = 100 + (j as u64 % 5000);
            body.push(chain::spend_tx(
                &[bitcoin::OutPoint { txid: fund_id, vout: j as u32 }],
                vec![chain::txout(per - fee, s0.clone())],
                if j % 2 == 0 { Some(2) } else { None },
                2,
            ));
        }
        k += per_block;
        if !add(&mut w, body, out, step) {
            return;
        }
        if upgrade && k >= n {
            if let Err(p) = sut::upgrade(None) {
                out.fail(format!("big case: upgrade trapped: {p}"));
                return;
            }
        }
        if k >= n || step % 2 == 0 {
            observe(&mut w, step, &mut obs, out, upgrade && k >= n);
        }
        step += 1;
    }
    let best = w.model.best_chain();
    let total: usize = best.iter().map(|b| w.model.blocks[*b].block.txdata.len() - 1).sum();
    if total > 10_000 {
        out.class("more_than_10000_transactions");
        out.nontrivial(crate::engine::fnv(format!("big-{}-{}-{}", n, blocks, upgrade).as_bytes()));
    }
}

fn run_eager(sc: &crate::hb::Scenario, out: &mut Outcome) {
    use crate::hb::{hb_cfg, Ev, HbWorld};
    let cfg = hb_cfg(sc.threshold, sc.pool.clone());
    let mut sut_cfg = crate::sut::SutConfig::new(cfg.net, cfg.threshold as u32);
    sut_cfg.lazy_fees = Flag::Disabled;
    let mut hw = HbWorld::new(&cfg, sut_cfg);
    let mut last_tip: Option<usize> = None;
    let mut last_value: Option<Vec<u64>> = None;
    for (i, ev) in sc.evs.iter().enumerate() {
        match ev {
            Ev::Mine(m) => {
                hw.mine(m.parent, m.prefer_tip, &m.coinbase, &m.txs, m.dt);
            }
            Ev::Plan(p) => hw.plan(p.clone()),
            Ev::Upgrade => {
                if let Err(p) = hw.upgrade(None) {
                    out.fail(format!("event {i}: upgrade trapped: {p}"));
                    return;
                }
            }
            Ev::Beat(b) => {
                let anchor_before = hw.w.model.anchor;
                let was_ingesting = sut::is_ingesting();
                let info = hw.heartbeat(*b);
                if let Some(p) = &info.trapped {
                    out.fail(format!("event {i}: heartbeat trapped: {p}"));
                    return;
                }
                if step_errors(&info.step, out) {
                    return;
                }
                // the heartbeat reaches the fee computation only if it neither ingested nor fetched
                let ran_to_end = !was_ingesting && !info.paused_after && hw.w.model.anchor == anchor_before && info.requests_issued == 0 && info.step.advances.is_empty();
                if !ran_to_end {
                    continue;
                }
                out.checks += 1;
                let best = hw.w.model.best_chain();
                let tip = *best.last().unwrap();
                if last_tip != Some(tip) {
                    let rates = hw.w.model.fee_rates_recent_first(&best, 10_000);
                    if !rates.is_empty() {
                        last_value = Some(percentiles(rates.clone()));
                        let mut r = rates;
                        r.sort();
                        r.dedup();
                        if r.len() >= 2 {
                            out.class("eager_new_tip_ge_2_rates");
                            out.nontrivial(shape(&hw.w, &[crate::engine::fnv(format!("{:?}", r).as_bytes())]));
                        }
                    }
                    last_tip = Some(tip);
                }
                let stored = ic_btc_canister::with_state(|s| s.fee_percentiles_cache.as_ref().map(|c| (c.tip_block_hash.to_vec(), c.fee_percentiles.clone())));
                match (&stored, &last_value) {
                    (None, None) => {}
                    (Some((_, v)), Some(want)) => {
                        if v != want {
                            out.fail(format!(
                                "event {i}: eager mode: the percentiles stored after the heartbeat (min/median/max {:?}/{:?}/{:?}) are not those of the best chain when its tip at height {} was first observed ({:?}/{:?}/{:?})",
                                v.first(), v.get(50), v.last(), hw.w.model.blocks[tip].height, want.first(), want.get(50), want.last()
                            ));
                        }
                    }
                    (Some((_, v)), None) => {
                        if !v.is_empty() {
                            out.fail(format!("event {i}: eager mode: percentiles are stored although no fee-paying transaction was ever on the best chain"));
                        }
                    }
                    (None, Some(_)) => out.fail(format!("event {i}: eager mode: no percentiles stored after a heartbeat that ran to completion on a chain with fee-paying transactions")),
                }
            }
        }
    }
    out.class("eager_heartbeat_case");
}

impl Property for C15 {
    type Case = Case15;
    fn id(&self) -> &'static str {
        "C15"
    }
    fn strategy(&self, tier: Tier) -> BoxedStrategy<Case15> {
        let (ops, big_w) = match tier {
            Tier::Quick => (22, 1u32),
            Tier::Thorough => (44, 2u32),
        };
        prop_oneof![
            1500 => (history_strategy(ops, 4, true, true), any::<bool>(), any::<u32>())
                .prop_map(|(hist, lazy, observe_mask)| Case15::Hist { hist, lazy, observe_mask }),
            big_w => (10_001u16..10_400, 1u8..6, any::<bool>()).prop_map(|(n, blocks, upgrade)| Case15::Big { n, blocks, upgrade }),
            300 => crate::hb::scenario_strategy(ops + 10, 4, false, true, false).prop_map(Case15::Eager),
        ]
        .boxed()
    }
    fn cases(&self, tier: Tier) -> u32 {
        match tier {
            Tier::Quick => 40_000,
            Tier::Thorough => 400_000,
        }
    }
    fn rule(&self) -> String {
        "Histories with fee-paying legacy and segwit transactions (fee 0..100%, forks with different transactions, reorgs, shared transactions, upgrades, threshold changes), eager (heartbeat-style recomputation is emulated by observing at every step) and lazy mode, observed at a generated subset of steps. Observation-time model: same tip -> same value; newly observed tip -> the 101 nearest-rank values of the model's rate list (fee from the naive ledger, vsize = ceil((3*stripped+total)/4), rate = floor(1000*fee/vsize), best chain tip->anchor, block order, first 10 000), or the previous value if that list is empty; exactly 0 or 101 non-decreasing values; after an upgrade the recomputed value for a new tip equals the model's. A few cases with 10 001..10 400 transactions. One case in six runs in eager mode through the real heartbeat (request-driven source, upgrades): after every heartbeat that ran to completion the stored percentiles must follow the same observation rule. Non-trivial: an observation of a new tip with >= 2 distinct fee rates, or a recomputation after an upgrade, or > 10 000 transactions; distinct = (tree shape, rate multiset hash).".into()
    }
    fn assumptions(&self) -> Vec<String> {
        vec!["the anchor block counts among 'the best chain's unstable blocks' (it is kept in the unstable tree)".into()]
    }
    fn brief(&self, case: &Case15) -> serde_json::Value {
        match case {
            Case15::Hist { hist, lazy, observe_mask } => serde_json::json!({"lazy": lazy, "observe_mask": observe_mask, "history": history_brief(hist)}),
            Case15::Eager(sc) => crate::hb::scenario_brief(sc),
            other => serde_json::to_value(other).unwrap(),
        }
    }
    fn required_classes(&self, tier: Tier) -> Vec<&'static str> {
        let mut v = vec!["ge_2_distinct_rates", "recomputed_after_upgrade", "same_tip_same_value", "new_tip_without_transactions_keeps_previous", "observed_after_reorg", "eager_heartbeat_case", "eager_new_tip_ge_2_rates"];
        if tier == Tier::Thorough {
            v.push("more_than_10000_transactions");
        }
        v
    }
    fn max_shrink_iters(&self) -> u32 {
        500
    }
    fn fuzz_sequences(&self) -> Vec<(&'static str, usize)> {
        vec![("/Hist/hist/ops", 40), ("/Eager/evs", 40)]
    }
    fn run(&self, case: &Case15) -> Outcome {
        let mut out = Outcome::default();
        match case {
            Case15::Big { n, blocks, upgrade } => run_big(*n, *blocks, *upgrade, &mut out),
            Case15::Eager(sc) => run_eager(sc, &mut out),
            Case15::Hist { hist, lazy, observe_mask } => {
                let mut sc = crate::sut::SutConfig::new(hist.cfg.net, hist.cfg.threshold as u32);
                sc.lazy_fees = if *lazy { Flag::Enabled } else { Flag::Disabled };
                let mut w = World::new_with(&hist.cfg, sc);
                history_classes(hist, &mut out);
                let mut obs = Obs { last_tip: None, last_value: None };
                let mut upgraded_since_obs = false;
                let mut reorg_since_obs = false;
                for (i, op) in hist.ops.iter().enumerate() {
                    let info = w.apply(i, op);
                    if step_errors(&info, &mut out) {
                        return out;
                    }
                    step_classes(&w, &info, &mut out);
                    if matches!(op, Op::Upgrade) {
                        upgraded_since_obs = true;
                    }
                    reorg_since_obs |= info.reorg;
                    let do_observe = !*lazy || (observe_mask >> (i % 32)) & 1 == 1;
                    if do_observe {
                        if reorg_since_obs {
                            out.class("observed_after_reorg");
                        }
                        let nt = observe(&mut w, i, &mut obs, &mut out, upgraded_since_obs);
                        if nt {
                            let best = w.model.best_chain();
                            let rates = w.model.fee_rates_recent_first(&best, 10_000);
                            out.nontrivial(shape(&w, &[crate::engine::fnv(format!("{:?}", rates).as_bytes())]));
                        }
                        upgraded_since_obs = false;
                        reorg_since_obs = false;
                    }
                }
            }
        }
        out
    }
}
