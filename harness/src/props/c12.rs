//! C12 — Only structurally sound blocks pass: coinbase first, merkle root, no duplicates.
use crate::chain::{self, Net};
use crate::engine::{fnv, Outcome, Property, Tier};
use crate::sut::{self, SutConfig};
use bitcoin::hashes::{sha256d, Hash};
use bitcoin::{Block, BlockHash, OutPoint, Transaction, Txid};
use ic_btc_validation::{BlockValidator, HeaderStore};
use ic_btc_canister as can;
use proptest::prelude::*;
use serde::{Deserialize, Serialize};
use std::time::Duration;

pub struct C12;

#[derive(Clone, Debug, Serialize, Deserialize)]
pub enum Mut12 {
    None,
    /// Merkle-preserving duplication of the last node at tree level `level` (CVE-2012-2459 family).
    DupLevel(u8),
    Swap(u16, u16),
    Remove(u16),
    /// Duplicate an arbitrary transaction at the end (changes the root unless odd count + last).
    DupAny(u16),
    WitnessEdit(u16),
    NoCoinbaseFirst,
    Empty,
    SecondCoinbase,
}

#[derive(Clone, Debug, Serialize, Deserialize)]
pub struct Case12 {
    pub n_tx: u8,
    pub witness_mask: u64,
    pub seed: u8,
    pub mutation: Mut12,
    /// Recompute the merkle root (and re-mine) after the mutation.
    pub fix_header: bool,
    /// Also feed the block to the canister's insert path (only when that cannot trap by design).
    pub via_canister: bool,
}

struct OneHeader(bitcoin::block::Header);
impl HeaderStore for OneHeader {
    fn get_with_block_hash(&self, hash: &BlockHash) -> Option<bitcoin::block::Header> {
        if *hash == self.0.block_hash() {
            Some(self.0)
        } else {
            None
        }
    }
    fn get_with_height(&self, height: u32) -> Option<bitcoin::block::Header> {
        if height == 0 {
            Some(self.0)
        } else {
            None
        }
    }
    fn height(&self) -> u32 {
        0
    }
}

/// Own merkle root over txids (double SHA-256, last element duplicated on odd levels).
pub fn own_merkle(txids: &[[u8; 32]]) -> Option<[u8; 32]> {
    if txids.is_empty() {
        return None;
    }
    let mut level: Vec<[u8; 32]> = txids.to_vec();
    while level.len() > 1 {
        let mut next = vec![];
        for pair in level.chunks(2) {
            let a = pair[0];
            let b = if pair.len() == 2 { pair[1] } else { pair[0] };
            let mut data = [0u8; 64];
            data[..32].copy_from_slice(&a);
            data[32..].copy_from_slice(&b);
            next.push(sha256d::Hash::hash(&data).to_byte_array());
        }
        level = next;
    }
    Some(level[0])
}

fn expand(list: &[Transaction], level: u32) -> Vec<Transaction> {
    if level == 0 {
        return vec![list[0].clone()];
    }
    let half = 1usize << (level - 1);
    let left = &list[..list.len().min(half)];
    let right: &[Transaction] = if list.len() > half { &list[half..] } else { left };
    let mut v = expand(left, level - 1);
    v.extend(expand(right, level - 1));
    v
}

/// Duplicates the last node of tree level `level` (if that level has an odd number of nodes
/// > 1), which leaves the merkle root unchanged.
pub fn dup_level(txs: &[Transaction], level: u32) -> Option<Vec<Transaction>> {
    let size = 1usize << level;
    let count = txs.len().div_ceil(size);
    if count <= 1 || count % 2 == 0 {
        return None;
    }
    let start = (count - 1) * size;
    let group = expand(&txs[start..], level);
    let mut v = txs[..start].to_vec();
    v.extend(group.clone());
    v.extend(group);
    Some(v)
}

fn build_valid(n_tx: u8, witness_mask: u64, seed: u8) -> Vec<Transaction> {
    let cb = chain::coinbase_tx(1, seed as u64 + 1, vec![chain::txout(50, bitcoin::ScriptBuf::from_bytes(vec![0x51]))]);
    let mut txs = vec![cb];
    for k in 1..n_tx.max(1) {
        let mut id = [0u8; 32];
        id[0] = k;
        id[1] = seed;
        id[31] = 0xaa;
        let w = if (witness_mask >> (k % 64)) & 1 == 1 { Some(k) } else { None };
        txs.push(chain::spend_tx(
            &[OutPoint { txid: Txid::from_byte_array(id), vout: k as u32 % 3 }],
            vec![chain::txout(1000 + k as u64, bitcoin::ScriptBuf::from_bytes(vec![0x51, k]))],
            w,
            2,
        ));
    }
    txs
}

impl Property for C12 {
    type Case = Case12;
    fn id(&self) -> &'static str {
        "C12"
    }
    fn strategy(&self, _tier: Tier) -> BoxedStrategy<Case12> {
        let m = prop_oneof![
            4 => Just(Mut12::None),
            8 => (0u8..6).prop_map(Mut12::DupLevel),
            2 => (any::<u16>(), any::<u16>()).prop_map(|(a, b)| Mut12::Swap(a, b)),
            2 => any::<u16>().prop_map(Mut12::Remove),
            2 => any::<u16>().prop_map(Mut12::DupAny),
            2 => any::<u16>().prop_map(Mut12::WitnessEdit),
            1 => Just(Mut12::NoCoinbaseFirst),
            1 => Just(Mut12::Empty),
            1 => Just(Mut12::SecondCoinbase),
        ];
        (
            prop_oneof![3 => 1u8..10, 3 => Just(1u8), 2 => prop_oneof![Just(2u8), Just(3), Just(4), Just(5), Just(7), Just(8), Just(9), Just(15), Just(16), Just(17), Just(31), Just(32), Just(33)], 2 => 10u8..41],
            any::<u64>(),
            any::<u8>(),
            m,
            any::<bool>(),
            prop_oneof![3 => Just(false), 1 => Just(true)],
        )
            .prop_map(|(n_tx, witness_mask, seed, mutation, fix_header, via_canister)| Case12 {
                n_tx,
                witness_mask: if seed % 3 == 0 { 0 } else { witness_mask },
                seed,
                mutation,
                fix_header,
                via_canister,
            })
            .boxed()
    }
    fn cases(&self, tier: Tier) -> u32 {
        match tier {
            Tier::Quick => 600_000,
            Tier::Thorough => 6_000_000,
        }
    }
    fn rule(&self) -> String {
        "Valid mined regtest blocks with 1..40 transactions (odd counts, powers of two and neighbours, witness and legacy) and mutations: merkle-preserving duplication of the last node at every tree level (CVE-2012-2459 family), swaps, removals, arbitrary duplications, witness-only edits, coinbase not first, empty body, second coinbase; each with the original header or with recomputed merkle root and re-mined header. Oracle (own double-SHA256 merkle over txids): accepted => non-empty, first is coinbase, own merkle = header root, txids pairwise distinct; sound and witness-free and transaction-valid => accepted; every merkle-preserving duplication => rejected. BlockValidator is called directly; the canister's insert_block path is used as well where it cannot trap by design (expected rejections and coinbase-only blocks), in half of those cases after the block's header was announced and stored as a next-block header. Non-trivial: a merkle-preserving mutation of a block with >= 3 transactions, or a mutation with recomputed header; distinct = (n, mutation, seed) hashes.".into()
    }
    fn assumptions(&self) -> Vec<String> {
        vec![
            "one-directional for blocks carrying witness data (a future witness-commitment check may reject them)".into(),
            "the implementation compares normalised ids, which may reject more than the statement on blocks that are not transaction-valid; generated valid blocks spend distinct outpoints".into(),
        ]
    }
    fn required_classes(&self, _tier: Tier) -> Vec<&'static str> {
        vec!["merkle_preserving_dup", "merkle_preserving_dup_level_ge_1", "valid_accepted", "rejected_bad_merkle", "rejected_no_coinbase", "rejected_empty", "via_canister", "via_canister_header_announced_first"]
    }
    fn run(&self, case: &Case12) -> Outcome {
        let mut out = Outcome::default();
        let net = Net::Regtest;
        let g = chain::genesis(net);
        let txs = build_valid(case.n_tx, case.witness_mask, case.seed);
        let valid = chain::build_block(net, g.block_hash(), g.header.time + 600, txs.clone(), true);
        let mut merkle_preserving = false;
        let mut mutated: Vec<Transaction> = match &case.mutation {
            Mut12::None => txs.clone(),
            Mut12::DupLevel(l) => match dup_level(&txs, *l as u32) {
                Some(v) => {
                    merkle_preserving = true;
                    v
                }
                None => txs.clone(),
            },
            Mut12::Swap(a, b) => {
                let mut v = txs.clone();
                let (i, j) = (crate::hist::pick(*a, v.len()), crate::hist::pick(*b, v.len()));
                v.swap(i, j);
                v
            }
            Mut12::Remove(a) => {
                let mut v = txs.clone();
                v.remove(crate::hist::pick(*a, v.len()));
                v
            }
            Mut12::DupAny(a) => {
                let mut v = txs.clone();
                let t = v[crate::hist::pick(*a, v.len())].clone();
                v.push(t);
                v
            }
            Mut12::WitnessEdit(a) => {
                let mut v = txs.clone();
                let i = crate::hist::pick(*a, v.len());
                if i > 0 {
                    let mut w = bitcoin::Witness::new();
                    w.push(vec![case.seed, 1, 2, 3]);
                    v[i].input[0].witness = w;
                }
                v
            }
            Mut12::NoCoinbaseFirst => {
                let mut v = txs.clone();
                if v.len() > 1 {
                    v.swap(0, 1);
                } else {
                    v[0] = chain::spend_tx(&[OutPoint { txid: Txid::from_byte_array([9; 32]), vout: 0 }], vec![], None, 2);
                }
                v
            }
            Mut12::Empty => vec![],
            Mut12::SecondCoinbase => {
                let mut v = txs.clone();
                v.push(chain::coinbase_tx(1, 7777 + case.seed as u64, vec![chain::txout(1, bitcoin::ScriptBuf::new())]));
                v
            }
        };
        if matches!(case.mutation, Mut12::None) {
            mutated = txs.clone();
        }
        let mut block = Block { header: valid.header, txdata: mutated };
        if case.fix_header && !merkle_preserving {
            block.header.merkle_root = block.compute_merkle_root().unwrap_or(bitcoin::TxMerkleNode::all_zeros());
            block.header.nonce = 0;
            chain::mine_header(&mut block.header);
        }
        // oracle
        let txids: Vec<[u8; 32]> = block.txdata.iter().map(|t| t.compute_txid().to_byte_array()).collect();
        let non_empty = !txids.is_empty();
        let cb_first = block.txdata.first().map(|t| t.input.len() == 1 && t.input[0].previous_output == OutPoint::null()).unwrap_or(false);
        let merkle_ok = own_merkle(&txids) == Some(block.header.merkle_root.to_byte_array());
        let mut sorted = txids.clone();
        sorted.sort();
        let distinct = sorted.windows(2).all(|p| p[0] != p[1]);
        let sound = non_empty && cb_first && merkle_ok && distinct;
        let has_witness = block.txdata.iter().any(|t| t.input.iter().any(|i| !i.witness.is_empty()));
        let single_coinbase = block.txdata.iter().filter(|t| t.is_coinbase()).count() == 1;
        let spends_distinct = {
            let mut ins: Vec<OutPoint> = block.txdata.iter().skip(1).flat_map(|t| t.input.iter().map(|i| i.previous_output)).collect();
            let n = ins.len();
            ins.sort();
            ins.dedup();
            ins.len() == n
        };
        if merkle_preserving {
            // self-check of the construction
            if !merkle_ok {
                out.fail("harness self-check: duplication did not preserve the merkle root".to_string());
                return out;
            }
            out.class("merkle_preserving_dup");
            if let Mut12::DupLevel(l) = case.mutation {
                if l >= 1 {
                    out.class("merkle_preserving_dup_level_ge_1");
                }
            }
        }
        let validator = BlockValidator::new(OneHeader(g.header), net.btc());
        out.checks += 1;
        let now = Duration::from_secs(sut::NOW_SECS);
        let desc = format!("block with {} transactions, mutation {:?}, header {}", block.txdata.len(), case.mutation, if case.fix_header && !merkle_preserving { "recomputed" } else { "original" });
        match sut::guarded(|| validator.validate_block(&block, now)) {
            Err(p) => out.fail(format!("{desc}: validation trapped: {p}")),
            Ok(r) => {
                if r.is_ok() && !sound {
                    out.fail(format!("{desc}: accepted although [non-empty, coinbase first, merkle root, distinct ids] = {:?}", [non_empty, cb_first, merkle_ok, distinct]));
                }
                if merkle_preserving && r.is_ok() {
                    out.fail(format!("{desc}: a merkle-preserving duplication was accepted"));
                }
                if sound && !has_witness && single_coinbase && spends_distinct && r.is_err() {
                    out.fail(format!("{desc}: a valid block was rejected: {:?}", r));
                }
                if r.is_ok() {
                    out.class("valid_accepted");
                } else if !non_empty {
                    out.class("rejected_empty");
                } else if !cb_first {
                    out.class("rejected_no_coinbase");
                } else if !merkle_ok {
                    out.class("rejected_bad_merkle");
                }
            }
        }
        // the canister's insert path (validation happens before anything is stored)
        let coinbase_only = block.txdata.len() == 1 && cb_first;
        if case.via_canister && (!sound || coinbase_only) {
            out.class("via_canister");
            sut::reset(&SutConfig::new(net, 2));
            out.checks += 1;
            // In half of the cases the block's header has been announced (and stored) before the
            // block itself arrives: the body checks must not depend on that.
            if case.seed & 1 == 1 {
                let blob = crate::hb::header_blob(&bitcoin::consensus::serialize(&block.header));
                let stored = sut::guarded(|| {
                    can::with_state_mut(|s| {
                        can::state::insert_next_block_headers(s, &[blob]);
                        s.unstable_blocks.has_next_block_header(&block.header)
                    })
                });
                match stored {
                    Ok(true) => out.class("via_canister_header_announced_first"),
                    Ok(false) => {}
                    Err(p) => out.fail(format!("{desc}: announcing the header trapped: {p}")),
                }
            }
            match sut::insert_validated(&block, None) {
                Err(p) => out.fail(format!("{desc}: insert_block trapped: {p}")),
                Ok(r) => {
                    if r.is_ok() && !sound {
                        out.fail(format!("{desc}: the canister admitted an unsound block"));
                    }
                    if sound && r.is_err() {
                        out.fail(format!("{desc}: the canister refused a valid coinbase-only block: {:?}", r));
                    }
                    let tree = sut::tree_hashes();
                    if !sound && tree.len() != 1 {
                        out.fail(format!("{desc}: a refused block changed the tree"));
                    }
                }
            }
        }
        if (merkle_preserving && txs.len() >= 3) || (case.fix_header && !matches!(case.mutation, Mut12::None)) {
            out.nontrivial(fnv(format!("{}-{:?}-{}-{}", case.n_tx, case.mutation, case.seed, case.fix_header).as_bytes()));
        }
        out
    }
}
