//! C13 — Block fetching survives any reply sequence and interleaving.
use super::common::*;
use crate::engine::{fnv, Outcome, Property, Tier};
use crate::hb::{hb_cfg, mine_strategy, plan_strategy, HbInfo, HbWorld, MineSpec, ReplyKind, ReplyPlan};
use crate::model::H32;
use crate::snapshot;
use crate::sut::{self, SutConfig};
use ic_btc_canister as can;
use ic_btc_canister::runtime::verif_hooks as hooks;
use ic_btc_canister::types::GetSuccessorsRequest;
use proptest::prelude::*;
use serde::{Deserialize, Serialize};
use std::future::Future;
use std::pin::Pin;
use std::task::{Context, Poll};

pub struct C13;

#[derive(Clone, Debug, Serialize, Deserialize)]
pub enum Ev13 {
    Mine(MineSpec),
    Plan(ReplyPlan),
    Beat,
    /// Start 2..3 heartbeats that overlap at the await point, interleave queries, release and
    /// complete them in the given order.
    Overlapped { extra: u8, order: Vec<u8>, query: bool },
    Upgrade,
}

#[derive(Clone, Debug, Serialize, Deserialize)]
pub struct Case13 {
    pub threshold: u8,
    pub pool: Vec<crate::chain::ScriptSpec>,
    pub evs: Vec<Ev13>,
}

fn h32(b: &ic_btc_types::BlockHash) -> H32 {
    let mut a = [0u8; 32];
    a.copy_from_slice(b.as_bytes());
    a
}

fn stored_block_bytes(hash: &H32) -> Option<Vec<u8>> {
    can::with_state(|s| {
        let bh = ic_btc_types::BlockHash::from(hash.to_vec());
        can::unstable_blocks::get_chain_with_tip(&s.unstable_blocks, &bh).map(|(chain, _)| {
            let mut buf = vec![];
            chain.tip().block().consensus_encode(&mut buf).unwrap();
            buf
        })
    })
}

struct Tracker {
    /// What the next request must look like.
    expect: Expect,
    admitted_ever: std::collections::BTreeSet<usize>,
    overlapped: usize,
    reject_between_pages: usize,
    rejects: usize,
    splits_completed: usize,
}

#[derive(Clone, Debug, PartialEq)]
enum Expect {
    Initial,
    FollowUp(u8, u8), // next number, total pages
    Any,
}

fn after_beat(hw: &mut HbWorld, info: &HbInfo, log_from: usize, pre_anchor: H32, pre_live: &[H32], t: &mut Tracker, out: &mut Outcome, ctx: &str) {
    let log: Vec<crate::hb::LogEntry> = hw.source.borrow().log[log_from..].to_vec();
    for e in &log {
        out.checks += 1;
        match (&e.request, &t.expect) {
            (GetSuccessorsRequest::Initial(_), Expect::FollowUp(k, n)) => {
                out.fail(format!("{ctx}: an initial request was sent although follow-up {k} of {n} was due"));
            }
            (GetSuccessorsRequest::FollowUp(k), Expect::Initial) => {
                out.fail(format!("{ctx}: follow-up request {k} was sent although an initial request was due (after a reject, an upgrade or a completed response)"));
            }
            (GetSuccessorsRequest::FollowUp(k), Expect::FollowUp(want, n)) => {
                if k != want {
                    out.fail(format!("{ctx}: follow-up requests are not numbered consecutively: got {k}, expected {want} of {n}"));
                }
            }
            (GetSuccessorsRequest::FollowUp(k), Expect::Any) => {
                out.fail(format!("{ctx}: follow-up request {k} without a partial response"));
            }
            _ => {}
        }
        if let GetSuccessorsRequest::Initial(init) = &e.request {
            if h32(&init.anchor) != pre_anchor {
                out.fail(format!("{ctx}: the initial request names anchor {} but the anchor is {}", hx(&h32(&init.anchor)), hx(&pre_anchor)));
            }
            let mut got: Vec<H32> = init.processed_block_hashes.iter().map(h32).collect();
            got.sort();
            let mut want: Vec<H32> = pre_live.iter().copied().filter(|h| *h != pre_anchor).collect();
            want.sort();
            if got != want {
                out.fail(format!("{ctx}: the initial request lists {} processed blocks, the tree holds {} other unstable blocks", got.len(), want.len()));
            }
            if init.network != ic_btc_interface::Network::Regtest {
                out.fail(format!("{ctx}: the initial request names the wrong network"));
            }
        }
        t.expect = match (&e.reply, &e.request) {
            (ReplyKind::Reject, GetSuccessorsRequest::FollowUp(_)) => {
                t.reject_between_pages += 1;
                t.rejects += 1;
                Expect::Initial
            }
            (ReplyKind::Reject, _) => {
                t.rejects += 1;
                Expect::Initial
            }
            (ReplyKind::Partial(n), _) => Expect::FollowUp(0, *n),
            (ReplyKind::FollowUp, GetSuccessorsRequest::FollowUp(k)) => match &t.expect {
                Expect::FollowUp(_, n) if k + 1 < *n => Expect::FollowUp(k + 1, *n),
                _ => {
                    t.splits_completed += 1;
                    Expect::Initial
                }
            },
            _ => Expect::Initial,
        };
    }
    // the tree never holds a block twice (a source may offer a processed block again)
    {
        out.checks += 1;
        let th = sut::tree_hashes();
        let mut u = th.clone();
        u.sort();
        u.dedup();
        if u.len() != th.len() {
            out.fail(format!("{ctx}: the tree holds {} blocks but only {} distinct ones: a block was applied twice", th.len(), u.len()));
        }
    }
    // admitted blocks: never twice, bit-identical to what the source holds
    for id in &info.admitted {
        out.checks += 1;
        if !t.admitted_ever.insert(*id) {
            out.fail(format!("{ctx}: a block was applied twice"));
        }
        if !hw.w.model.live.contains(id) {
            // stabilised or discarded again within the same group of heartbeats
            continue;
        }
        let hash = hw.w.model.blocks[*id].hash;
        let src = hw.source.borrow().known.iter().find(|b| b.hash == hash).map(|b| b.bytes.clone());
        match (stored_block_bytes(&hash), src) {
            (Some(stored), Some(src)) => {
                if stored != src {
                    out.fail(format!("{ctx}: the block admitted at height {} is not bit-identical to the block the source holds ({} vs {} bytes)", hw.w.model.blocks[*id].height, stored.len(), src.len()));
                }
            }
            _ => out.fail(format!("{ctx}: an admitted block cannot be read back")),
        }
    }
}

fn simple_beat(hw: &mut HbWorld, t: &mut Tracker, out: &mut Outcome, ctx: &str) -> bool {
    let pre_anchor = hw.w.model.blocks[hw.w.model.anchor].hash;
    let pre_live: Vec<H32> = hw.w.model.live.iter().map(|b| hw.w.model.blocks[*b].hash).collect();
    let log_from = hw.source.borrow().log.len();
    let info = hw.heartbeat(None);
    if let Some(p) = &info.trapped {
        out.fail(format!("{ctx}: heartbeat trapped: {p}"));
        return false;
    }
    if step_errors(&info.step, out) {
        return false;
    }
    after_beat(hw, &info, log_from, pre_anchor, &pre_live, t, out, ctx);
    true
}

fn overlapped_beat(hw: &mut HbWorld, extra: u8, order: &[u8], query: bool, t: &mut Tracker, out: &mut Outcome, ctx: &str) -> bool {
    let pre_anchor = hw.w.model.blocks[hw.w.model.anchor].hash;
    let pre_live: Vec<H32> = hw.w.model.live.iter().map(|b| hw.w.model.blocks[*b].hash).collect();
    let log_from = hw.source.borrow().log.len();
    hooks::set_manual_fetch(true);
    let waker = futures::task::noop_waker();
    let mut cx = Context::from_waker(&waker);
    let mut pending: Vec<Pin<Box<dyn Future<Output = ()>>>> = vec![];
    let mut ok = true;
    let (mut pre_anchor, mut pre_live) = (pre_anchor, pre_live);
    let mut admitted_in_group: Vec<usize> = vec![];
    for _ in 0..=(extra.clamp(1, 2)) {
        // the request of a heartbeat reflects the state at its start: bring the model up to
        // date with what earlier heartbeats of this group did
        let mut hi = HbInfo::default();
        hi.step.live_set_matches = true;
        hw.sync(&mut hi);
        if step_errors(&hi.step, out) {
            ok = false;
            break;
        }
        admitted_in_group.extend(hi.admitted.iter().copied());
        let cur_anchor = hw.w.model.blocks[hw.w.model.anchor].hash;
        let cur_live: Vec<H32> = hw.w.model.live.iter().map(|b| hw.w.model.blocks[*b].hash).collect();
        let mut f: Pin<Box<dyn Future<Output = ()>>> = Box::pin(can::heartbeat());
        match sut::guarded(|| f.as_mut().poll(&mut cx)) {
            Err(p) => {
                out.fail(format!("{ctx}: an overlapping heartbeat trapped: {p}"));
                ok = false;
                break;
            }
            Ok(Poll::Ready(())) => {}
            Ok(Poll::Pending) => {
                // this heartbeat issued the (single) outstanding request
                pre_anchor = cur_anchor;
                pre_live = cur_live;
                pending.push(f)
            }
        }
        out.checks += 1;
        let parked = hooks::parked_fetches();
        if parked.len() > 1 {
            out.fail(format!("{ctx}: {} get_successors requests are outstanding at the same time", parked.len()));
        }
    }
    if ok && pending.len() >= 1 {
        t.overlapped += 1;
        out.class("heartbeats_overlapped_at_await_point");
    }
    if ok && query {
        // queries interleaved at the await point must not trap
        let s = snapshot::take(&hw.w);
        if !s.traps.is_empty() {
            out.fail(format!("{ctx}: a query trapped while a fetch is outstanding: {}", s.traps[0]));
        }
    }
    // release and complete in the generated order
    let mut k = 0usize;
    let mut spins = 0;
    while ok && !pending.is_empty() {
        let parked = hooks::parked_fetches();
        if !parked.is_empty() {
            let pick = order.get(k).copied().unwrap_or(0) as usize % parked.len();
            hooks::release_fetch(parked[pick].0);
            k += 1;
        }
        let mut still = vec![];
        for mut f in pending.drain(..) {
            match sut::guarded(|| f.as_mut().poll(&mut cx)) {
                Err(p) => {
                    out.fail(format!("{ctx}: an overlapping heartbeat trapped after its fetch was answered: {p}"));
                    ok = false;
                }
                Ok(Poll::Ready(())) => {}
                Ok(Poll::Pending) => still.push(f),
            }
        }
        pending = still;
        spins += 1;
        if spins > 20 {
            out.fail(format!("{ctx}: an overlapping heartbeat never completed"));
            ok = false;
        }
    }
    drop(pending);
    hooks::set_manual_fetch(false);
    if !ok {
        return false;
    }
    let mut info = HbInfo::default();
    info.step.live_set_matches = true;
    hw.sync(&mut info);
    if step_errors(&info.step, out) {
        return false;
    }
    let fetching = can::with_state(|s| s.syncing_state.is_fetching_blocks);
    if fetching {
        out.fail(format!("{ctx}: the fetch guard is still held after all heartbeats completed"));
    }
    info.admitted.extend(admitted_in_group);
    after_beat(hw, &info, log_from, pre_anchor, &pre_live, t, out, ctx);
    true
}

impl Property for C13 {
    type Case = Case13;
    fn id(&self) -> &'static str {
        "C13"
    }
    fn strategy(&self, tier: Tier) -> BoxedStrategy<Case13> {
        let n = match tier {
            Tier::Quick => 40,
            Tier::Thorough => 80,
        };
        let ev = prop_oneof![
            8 => mine_strategy(2).prop_map(Ev13::Mine),
            6 => plan_strategy(true).prop_map(Ev13::Plan),
            12 => Just(Ev13::Beat),
            5 => (1u8..3, prop::collection::vec(any::<u8>(), 0..4), any::<bool>()).prop_map(|(extra, order, query)| Ev13::Overlapped { extra, order, query }),
            1 => Just(Ev13::Upgrade),
        ];
        (prop_oneof![4 => 1u8..=2, 2 => 3u8..=5], crate::hist::pool_strategy(), prop::collection::vec(ev, 1..=n))
            .prop_map(|(threshold, pool, evs)| Case13 { threshold, pool, evs })
            .boxed()
    }
    fn cases(&self, tier: Tier) -> u32 {
        match tier {
            Tier::Quick => 20_000,
            Tier::Thorough => 200_000,
        }
    }
    fn rule(&self) -> String {
        "Heartbeat-driver scenarios on regtest with a request-driven source following a generated reply script (complete replies of 1..3 blocks, blocks split over 1..40 or 255 follow-up pages at generated cut points incl. empty pages, empty replies, rejects of the initial request and of any follow-up, complete replies that offer a block the request lists as processed once more, before or after new blocks) and a generated schedule: plain heartbeats, and groups of 2..3 heartbeats that overlap at the await point (the harness owns the yield point before the get_successors call, polls the futures by hand, interleaves queries and releases/completes them in a generated order), plus upgrades between messages. Oracle from the request log and the tree: at most one request outstanding; follow-ups numbered 0,1,2,... without gaps; after a reject, an upgrade or a completed response the next request is initial; every initial request names the current anchor, regtest and exactly the other unstable blocks; a split block is stored bit-identically to the source's block; no block applied twice (never admitted twice, the tree never holds a hash twice); the fetch guard is free after every group; bounded liveness: once the script has no more faults every block the source holds below the anchor is in the tree after 20 + 5*(pages+blocks) further heartbeats. Non-trivial: a case with >= 2 heartbeats overlapped at the await point while a request was outstanding, or a reject between pages; distinct = scenario hashes.".into()
    }
    fn assumptions(&self) -> Vec<String> {
        vec![
            "well-behaved source: follow-up k is answered with page k and a partial reply announces >= 1 follow-up (Partial{remaining_follow_ups:0} or a Complete answer to a follow-up trap the heartbeat and are protocol violations by the source)".into(),
            "'eventually' is checked as bounded liveness; the only preemption point inside a message is the await of the get_successors call".into(),
        ]
    }
    fn brief(&self, case: &Case13) -> serde_json::Value {
        serde_json::json!({
            "threshold": case.threshold,
            "pool": case.pool.iter().map(|p| format!("{:?}", p)).collect::<Vec<_>>(),
            "events": case.evs.iter().map(|e| match e {
                Ev13::Mine(m) => format!("Mine(parent_sel={}, tip={}, cb_outs={}, txs={}, dt={})", m.parent, m.prefer_tip, m.coinbase.len(), m.txs.len(), m.dt),
                Ev13::Plan(p) => format!("Plan({:?})", p),
                Ev13::Beat => "Heartbeat".to_string(),
                Ev13::Overlapped { extra, order, query } => format!("OverlappedHeartbeats(n={}, release_order={:?}, queries_in_between={})", 1 + (*extra).clamp(1, 2), order, query),
                Ev13::Upgrade => "Upgrade".to_string(),
            }).collect::<Vec<_>>(),
        })
    }
    fn required_classes(&self, _tier: Tier) -> Vec<&'static str> {
        vec!["heartbeats_overlapped_at_await_point", "reject_between_pages", "reject_of_initial", "split_completed", "liveness_checked", "upgrade_between_pages", "processed_block_offered_again"]
    }
    fn max_shrink_iters(&self) -> u32 {
        400
    }
    fn fuzz_sequences(&self) -> Vec<(&'static str, usize)> {
        vec![("/evs", 80)]
    }
    fn run(&self, case: &Case13) -> Outcome {
        let mut out = Outcome::default();
        let cfg = hb_cfg(case.threshold, case.pool.clone());
        let mut hw = HbWorld::new(&cfg, SutConfig::new(cfg.net, cfg.threshold as u32));
        let mut t = Tracker { expect: Expect::Initial, admitted_ever: Default::default(), overlapped: 0, reject_between_pages: 0, rejects: 0, splits_completed: 0 };
        for (i, ev) in case.evs.iter().enumerate() {
            let ctx = format!("event {i}");
            match ev {
                Ev13::Mine(m) => {
                    hw.mine(m.parent, m.prefer_tip, &m.coinbase, &m.txs, m.dt);
                }
                Ev13::Plan(p) => hw.plan(p.clone()),
                Ev13::Beat => {
                    if !simple_beat(&mut hw, &mut t, &mut out, &ctx) {
                        return out;
                    }
                }
                Ev13::Overlapped { extra, order, query } => {
                    if !overlapped_beat(&mut hw, *extra, order, *query, &mut t, &mut out, &ctx) {
                        return out;
                    }
                }
                Ev13::Upgrade => {
                    let partial = can::with_state(|s| matches!(s.syncing_state.response_to_process, Some(can::state::ResponseToProcess::Partial(_, _))));
                    if partial {
                        out.class("upgrade_between_pages");
                    }
                    if let Err(p) = hw.upgrade(None) {
                        out.fail(format!("{ctx}: upgrade trapped: {p}"));
                        return out;
                    }
                    let mut hi = HbInfo::default();
                    hi.step.live_set_matches = true;
                    hw.sync(&mut hi);
                    if step_errors(&hi.step, &mut out) {
                        return out;
                    }
                    t.expect = Expect::Initial;
                }
            }
        }
        // bounded liveness once the source answers normally
        let remaining: Vec<ReplyPlan> = hw.source.borrow().plan.iter().filter(|p| !matches!(p, ReplyPlan::Reject | ReplyPlan::Empty | ReplyPlan::Split { reject_at: Some(_), .. })).cloned().collect();
        let pages: usize = remaining.iter().map(|p| if let ReplyPlan::Split { pages, .. } = p { *pages as usize } else { 0 }).sum::<usize>()
            + hw.source.borrow().pending.as_ref().map(|(p, _, _)| p.len()).unwrap_or(0);
        hw.source.borrow_mut().plan = remaining.into_iter().collect();
        // a follow-up rejection already scheduled for the page sequence in flight stays a fault:
        if let Some((_, _, reject_at)) = hw.source.borrow_mut().pending.as_mut() {
            *reject_at = None;
        }
        let undelivered = hw.descendants_of_anchor().iter().filter(|b| !hw.w.model.live.contains(b)).count();
        let bound = 20 + 5 * (pages + undelivered + hw.source.borrow().plan.len());
        let mut n = 0;
        while !hw.fully_synced() {
            if !simple_beat(&mut hw, &mut t, &mut out, &format!("liveness heartbeat {n}")) {
                return out;
            }
            n += 1;
            if n > bound {
                out.fail(format!(
                    "stall: {} offered valid blocks are still not applied {bound} heartbeats after the source started answering normally",
                    hw.descendants_of_anchor().iter().filter(|b| !hw.w.model.live.contains(b)).count()
                ));
                return out;
            }
        }
        out.class("liveness_checked");
        if t.reject_between_pages > 0 {
            out.class_n("reject_between_pages", t.reject_between_pages as u64);
        }
        if t.rejects > t.reject_between_pages {
            out.class("reject_of_initial");
        }
        if t.splits_completed > 0 {
            out.class_n("split_completed", t.splits_completed as u64);
        }
        let reoffered = hw.source.borrow().reoffered;
        if reoffered > 0 {
            out.class_n("processed_block_offered_again", reoffered);
        }
        if t.overlapped > 0 || t.reject_between_pages > 0 {
            out.nontrivial(fnv(format!("{:?}", case).as_bytes()));
        }
        out
    }
}
