//! C18 — Watchdog HTTP transforms are total, canonical and strip everything else.
use crate::engine::{fnv, Outcome, Property, Tier};
use ic_management_canister_types::{HttpHeader, HttpRequestResult, TransformArgs};
use proptest::prelude::*;
use serde::{Deserialize, Serialize};
use watchdog::verif_hooks as wd;

pub struct C18;

#[derive(Clone, Debug, Serialize, Deserialize)]
pub enum HeightVal {
    Int(u64),
    Neg(i64),
    Float(u32, u32),
    Huge,
    Str(u64),
    Null,
    Bool(bool),
    Nested,
    Missing,
}

#[derive(Clone, Debug, Serialize, Deserialize)]
pub enum Body {
    /// A body of the endpoint's own shape with the height member as given.
    Shaped {
        height: HeightVal,
        /// Unrelated members (name seed, value seed) added at the levels of the document.
        extra: Vec<(u8, u8)>,
        /// Whitespace style 0..3.
        ws: u8,
        /// Put the extracted member last instead of first.
        reorder: bool,
        /// Truncate the text to this many per-mille (1000 = whole).
        keep_permille: u16,
        /// For array-shaped endpoints: number of leading elements (0 = empty array).
        array_len: u8,
    },
    Raw(Vec<u8>),
    Text(String),
    /// Valid UTF-8 with multi-byte characters, optionally wrapped as a JSON string member of an
    /// otherwise well-shaped document, optionally truncated at a byte position.
    Unicode { text: String, as_json: bool, cut: Option<u16> },
}

#[derive(Clone, Debug, Serialize, Deserialize)]
pub struct Case18 {
    pub endpoint: u8,
    pub status: u32,
    pub headers: Vec<(String, String)>,
    pub body: Body,
    /// The target the watchdog is configured for while the transforms run (index into the five
    /// targets): the result must not depend on it.
    #[serde(default)]
    pub target: u8,
}

#[derive(Clone, Copy, PartialEq, Eq, Debug)]
enum Kind {
    ArrayHeight,
    DataBest,
    TopHeight,
    Plain,
}

fn kind_of(name: &str) -> Kind {
    if name.contains("bitcore") {
        Kind::ArrayHeight
    } else if name.contains("blockchair") {
        Kind::DataBest
    } else if name.contains("blockcypher") {
        Kind::TopHeight
    } else {
        Kind::Plain
    }
}

fn hv_text(h: &HeightVal) -> Option<String> {
    Some(match h {
        HeightVal::Int(n) => n.to_string(),
        HeightVal::Neg(n) => format!("-{}", n.unsigned_abs().max(1)),
        HeightVal::Float(a, b) => format!("{}.{}", a, b),
        HeightVal::Huge => "184467440737095516160".to_string(),
        HeightVal::Str(n) => format!("\"{}\"", n),
        HeightVal::Null => "null".to_string(),
        HeightVal::Bool(b) => b.to_string(),
        HeightVal::Nested => "{\"height\":7}".to_string(),
        HeightVal::Missing => return None,
    })
}

fn render(kind: Kind, height: &HeightVal, extra: &[(u8, u8)], ws: u8, reorder: bool, array_len: u8) -> String {
    let (sp, nl) = match ws % 4 {
        0 => ("", ""),
        1 => (" ", ""),
        2 => ("  ", "\n"),
        _ => ("\t", "\r\n "),
    };
    let extras = |level: u8| -> Vec<String> {
        extra
            .iter()
            .filter(|(n, _)| n % 3 == level)
            .map(|(n, v)| {
                let val = match v % 5 {
                    0 => format!("{}", v),
                    1 => format!("\"s{}\"", v),
                    2 => "null".to_string(),
                    3 => format!("[{},{{\"height\":{}}}]", v, v),
                    _ => format!("{{\"height\":{},\"k\":[]}}", v),
                };
                format!("\"x{}\":{sp}{}", n, val)
            })
            .collect()
    };
    let obj = |members: Vec<String>| format!("{{{nl}{}{nl}}}", members.join(&format!(",{sp}{nl}")));
    let with_member = |name: &str, level: u8| -> Vec<String> {
        let mut m = extras(level);
        if let Some(t) = hv_text(height) {
            let mem = format!("\"{}\":{sp}{}", name, t);
            if reorder {
                m.push(mem);
            } else {
                m.insert(0, mem);
            }
        }
        m
    };
    match kind {
        Kind::TopHeight => obj(with_member("height", 0)),
        Kind::DataBest => {
            let inner = obj(with_member("best_block_height", 1));
            let mut m = extras(0);
            let mem = format!("\"data\":{sp}{}", inner);
            if reorder {
                m.push(mem);
            } else {
                m.insert(0, mem);
            }
            obj(m)
        }
        Kind::ArrayHeight => {
            let mut elems = vec![];
            for k in 0..array_len {
                if k == 0 {
                    elems.push(obj(with_member("height", 0)));
                } else {
                    elems.push(format!("{{\"height\":{sp}{}}}", 1000 + k as u32));
                }
            }
            format!("[{nl}{}{nl}]", elems.join(&format!(",{sp}")))
        }
        Kind::Plain => hv_text(height).unwrap_or_default(),
    }
}

/// Independent lookup of the height in a raw body for the endpoint kind: Some(Some(n)) = a
/// non-negative integer fitting u64 was found, Some(None) = valid document without such a
/// value, None = not a valid document.
fn lookup(kind: Kind, body: &[u8]) -> Option<Option<u64>> {
    let text = std::str::from_utf8(body).ok()?;
    match kind {
        Kind::Plain => {
            if !text.is_empty() && text.bytes().all(|b| b.is_ascii_digit()) {
                Some(text.parse::<u64>().ok())
            } else {
                None
            }
        }
        _ => {
            let v: serde_json::Value = serde_json::from_str(text).ok()?;
            let leaf = match kind {
                Kind::TopHeight => v.as_object().and_then(|o| o.get("height")),
                Kind::DataBest => v.as_object().and_then(|o| o.get("data")).and_then(|d| d.as_object()).and_then(|o| o.get("best_block_height")),
                Kind::ArrayHeight => v.as_array().and_then(|a| a.first()).and_then(|e| e.as_object()).and_then(|o| o.get("height")),
                Kind::Plain => unreachable!(),
            };
            Some(match leaf {
                Some(serde_json::Value::Number(n)) if n.is_u64() => n.as_u64(),
                _ => None,
            })
        }
    }
}

fn call(name: &str, status: u32, headers: &[(String, String)], body: &[u8]) -> Result<HttpRequestResult, String> {
    let args = TransformArgs {
        response: HttpRequestResult {
            status: candid::Nat::from(status),
            headers: headers.iter().map(|(n, v)| HttpHeader { name: n.clone(), value: v.clone() }).collect(),
            body: body.to_vec(),
        },
        context: vec![],
    };
    crate::sut::guarded(|| wd::transform(name, args))
}

impl Property for C18 {
    type Case = Case18;
    fn id(&self) -> &'static str {
        "C18"
    }
    fn strategy(&self, _tier: Tier) -> BoxedStrategy<Case18> {
        let height = prop_oneof![
            6 => prop_oneof![Just(0u64), 1u64..1000, 700_000u64..900_000, Just(u64::MAX), Just(u64::MAX - 1), Just(i64::MAX as u64 + 1)].prop_map(HeightVal::Int),
            1 => (1i64..1_000_000).prop_map(HeightVal::Neg),
            1 => (0u32..1000, 0u32..1000).prop_map(|(a, b)| HeightVal::Float(a, b)),
            1 => Just(HeightVal::Huge),
            1 => (0u64..1_000_000).prop_map(HeightVal::Str),
            1 => Just(HeightVal::Null),
            1 => any::<bool>().prop_map(HeightVal::Bool),
            1 => Just(HeightVal::Nested),
            1 => Just(HeightVal::Missing),
        ];
        let body = prop_oneof![
            10 => (height, prop::collection::vec((any::<u8>(), any::<u8>()), 0..5), 0u8..4, any::<bool>(), prop_oneof![8 => Just(1000u16), 2 => 0u16..1000], 0u8..4)
                .prop_map(|(height, extra, ws, reorder, keep_permille, array_len)| Body::Shaped { height, extra, ws, reorder, keep_permille, array_len }),
            2 => prop::collection::vec(any::<u8>(), 0..60).prop_map(Body::Raw),
            2 => "[ -~\\n\\t]{0,40}".prop_map(Body::Text),
            3 => ("[ -~\u{e4}\u{f6}\u{fc}\u{20ac}\u{4e2d}\u{6587}\u{1d11e}\u{1f600}\\n]{0,220}", any::<bool>(), prop_oneof![2 => Just(None), 1 => (0u16..400).prop_map(Some)])
                .prop_map(|(text, as_json, cut)| Body::Unicode { text, as_json, cut }),
            1 => prop_oneof![Just("+12".to_string()), Just(" 12".to_string()), Just("12\n".to_string()), Just("012".to_string()), Just("1e3".to_string()), Just("0x10".to_string()), Just("".to_string()), Just("18446744073709551616".to_string())].prop_map(Body::Text),
        ];
        (
            0u8..11,
            prop_oneof![6 => Just(200u32), 1 => Just(404u32), 1 => Just(500u32), 1 => Just(0u32), 1 => Just(201u32), 1 => any::<u32>()],
            prop::collection::vec(("[A-Za-z-]{1,12}", "[ -~]{0,20}"), 0..4),
            body,
            0u8..5,
        )
            .prop_map(|(endpoint, status, headers, body, target)| Case18 { target, endpoint, status, headers, body })
            .boxed()
    }
    fn cases(&self, tier: Tier) -> u32 {
        match tier {
            Tier::Quick => 2_000_000,
            Tier::Thorough => 20_000_000,
        }
    }
    fn raw_target(&self) -> Option<(&'static str, fn(&[u8]) -> Outcome)> {
        Some(("transform", fuzz_transform))
    }
    fn rule(&self) -> String {
        "Every explorer endpoint's transform (11 endpoint configurations via the hook, plus the 10 exported transform_* query functions, each executed while the watchdog is configured for one of its five targets: the result must not depend on the stored configuration) x status (200, 201, 404, 500, 0, random) x arbitrary headers x bodies: grammar-generated JSON of the explorer's real shape with the height member as integer (0, small, realistic, u64::MAX, i64::MAX+1) / negative / float / 2^64*10 / string / null / bool / nested / missing, unrelated members at every level, four whitespace styles, member order, truncation; plain-number bodies incl. '+12', ' 12', '12\\n', '012', '1e3', ''; random bytes (invalid UTF-8); valid UTF-8 of up to ~800 bytes mixing ASCII with 2-, 3- and 4-byte characters, raw or as a string member of a well-shaped document, optionally truncated at any byte. Oracle: no trap; no headers; same status; body in {empty, {\"height\":N}, {\"height\":null}} byte-exact; N only if an independent path lookup on the parsed body finds that non-negative integer, and then it must be reported; for status 200 the result is identical for variants of the same document that differ only in headers, whitespace, member order or unrelated members. Non-trivial: a syntactically valid body of the endpoint's shape with >= 1 perturbation; distinct = (endpoint, body) hashes.".into()
    }
    fn assumptions(&self) -> Vec<String> {
        vec!["for plain-number endpoints only bodies consisting solely of ASCII digits have a height every reading agrees on; other text may map to empty or to the canonical object".into()]
    }
    fn required_classes(&self, _tier: Tier) -> Vec<&'static str> {
        vec!["valid_shape_perturbed", "height_extracted", "height_null", "empty_body_result", "non_200", "invalid_utf8_or_json", "metamorphic_pair_equal", "unicode_body_longer_than_100_bytes", "configured_target_0", "configured_target_1", "configured_target_2", "configured_target_3", "configured_target_4"]
    }
    fn run(&self, case: &Case18) -> Outcome {
        let mut out = Outcome::default();
        let targets = wd::all_canisters();
        let target = targets[case.target as usize % targets.len()];
        wd::set_target(target);
        out.class(match case.target as usize % targets.len() {
            0 => "configured_target_0",
            1 => "configured_target_1",
            2 => "configured_target_2",
            3 => "configured_target_3",
            _ => "configured_target_4",
        });
        let names = wd::endpoint_names();
        let name = names[case.endpoint as usize % names.len()];
        let kind = kind_of(name);
        let (body, shaped): (Vec<u8>, Option<(&HeightVal, &Vec<(u8, u8)>, u8, bool, u8, bool)>) = match &case.body {
            Body::Shaped { height, extra, ws, reorder, keep_permille, array_len } => {
                let t = render(kind, height, extra, *ws, *reorder, (*array_len).max(if kind == Kind::ArrayHeight { 0 } else { 1 }));
                let keep = t.len() * (*keep_permille as usize).min(1000) / 1000;
                let mut cut = keep;
                while !t.is_char_boundary(cut) {
                    cut -= 1;
                }
                (t.as_bytes()[..cut].to_vec(), Some((height, extra, *ws, *reorder, *array_len, *keep_permille >= 1000)))
            }
            Body::Raw(b) => (b.clone(), None),
            Body::Text(s) => (s.clone().into_bytes(), None),
            Body::Unicode { text, as_json, cut } => {
                let doc = if *as_json {
                    let quoted = serde_json::to_string(text).unwrap();
                    match kind {
                        Kind::TopHeight => format!("{{\"note\":{quoted},\"height\":77}}"),
                        Kind::DataBest => format!("{{\"data\":{{\"best_block_height\":77,\"note\":{quoted}}}}}"),
                        Kind::ArrayHeight => format!("[{{\"height\":77,\"note\":{quoted}}}]"),
                        Kind::Plain => text.clone(),
                    }
                } else {
                    text.clone()
                };
                let mut b = doc.into_bytes();
                if let Some(c) = cut {
                    b.truncate(*c as usize);
                }
                out.class("unicode_body");
                if b.len() > 100 && std::str::from_utf8(&b).is_ok() {
                    out.class("unicode_body_longer_than_100_bytes");
                }
                (b, None)
            }
        };
        out.checks += 1;
        let res = match call(name, case.status, &case.headers, &body) {
            Ok(r) => r,
            Err(p) => {
                out.fail(format!("{name}: transform trapped on status {} body {:?}: {p}", case.status, String::from_utf8_lossy(&body)));
                return out;
            }
        };
        let desc = format!("{name} status {} body {:?}", case.status, String::from_utf8_lossy(&body[..body.len().min(200)]));
        if !res.headers.is_empty() {
            out.fail(format!("{desc}: result carries {} headers", res.headers.len()));
        }
        if res.status != candid::Nat::from(case.status) {
            out.fail(format!("{desc}: status changed to {}", res.status));
        }
        let found = lookup(kind, &body);
        let canon = |n: Option<u64>| match n {
            Some(n) => format!("{{\"height\":{}}}", n).into_bytes(),
            None => b"{\"height\":null}".to_vec(),
        };
        let is_allowed_shape = res.body.is_empty()
            || res.body == b"{\"height\":null}"
            || (res.body.starts_with(b"{\"height\":") && res.body.ends_with(b"}") && {
                let mid = &res.body[10..res.body.len() - 1];
                !mid.is_empty() && mid.iter().all(|b| b.is_ascii_digit()) && (mid.len() == 1 || mid[0] != b'0') && std::str::from_utf8(mid).unwrap().parse::<u64>().is_ok()
            });
        if !is_allowed_shape {
            out.fail(format!("{desc}: result body {:?} is neither empty nor the canonical height object", String::from_utf8_lossy(&res.body)));
        }
        if case.status != 200 {
            out.class("non_200");
            if !res.body.is_empty() && res.body != canon(found.flatten()) {
                out.fail(format!("{desc}: non-200 response produced body {:?}", String::from_utf8_lossy(&res.body)));
            }
        } else {
            match found {
                Some(Some(n)) => {
                    out.class("height_extracted");
                    if res.body != canon(Some(n)) {
                        out.fail(format!("{desc}: the document holds height {n} but the result is {:?}", String::from_utf8_lossy(&res.body)));
                    }
                }
                Some(None) => {
                    out.class("height_null");
                    if !(res.body.is_empty() || res.body == canon(None)) {
                        out.fail(format!("{desc}: no non-negative integer height in the document but the result is {:?}", String::from_utf8_lossy(&res.body)));
                    }
                }
                None => {
                    out.class("invalid_utf8_or_json");
                    if kind != Kind::Plain && !res.body.is_empty() {
                        out.fail(format!("{desc}: unparsable document but the result is {:?}", String::from_utf8_lossy(&res.body)));
                    }
                }
            }
        }
        if res.body.is_empty() {
            out.class("empty_body_result");
        }
        // metamorphic variants of a complete shaped document
        if let Some((height, extra, ws, reorder, array_len, whole)) = shaped {
            if whole && case.status == 200 {
                let alen = array_len.max(if kind == Kind::ArrayHeight { 0 } else { 1 });
                let variants = [
                    render(kind, height, extra, ws.wrapping_add(1), reorder, alen),
                    render(kind, height, extra, ws, !reorder, alen),
                    render(kind, height, &[], ws, reorder, alen),
                    render(kind, height, &[(7, 3), (8, 4), (9, 1)], ws.wrapping_add(2), !reorder, alen),
                ];
                for (vi, v) in variants.iter().enumerate() {
                    if kind == Kind::Plain && vi != 2 {
                        continue;
                    }
                    out.checks += 1;
                    let hdrs = vec![("Date".to_string(), format!("variant-{vi}")), ("Set-Cookie".to_string(), "a=b".to_string())];
                    match call(name, 200, &hdrs, v.as_bytes()) {
                        Ok(r2) => {
                            if r2.body != res.body || r2.status != res.status || !r2.headers.is_empty() {
                                out.fail(format!("{desc}: an equivalent response (different headers/whitespace/member order/unrelated members: {:?}) gives a different result {:?} vs {:?}", v, String::from_utf8_lossy(&r2.body), String::from_utf8_lossy(&res.body)));
                            } else {
                                out.class("metamorphic_pair_equal");
                            }
                        }
                        Err(p) => out.fail(format!("{desc}: variant trapped: {p}")),
                    }
                }
                if !extra.is_empty() || ws % 4 != 0 || reorder || !matches!(height, HeightVal::Int(_)) {
                    out.class("valid_shape_perturbed");
                    out.nontrivial(fnv(format!("{}-{}", name, String::from_utf8_lossy(&body)).as_bytes()));
                }
            }
        }
        // the exported query functions must agree with the endpoint configuration
        for (tname, f) in wd::exported_transforms() {
            let suffix = tname.trim_start_matches("transform_");
            let matches_endpoint = name == suffix || (suffix == "bitcoin_mempool" && name.ends_with("_mempool"));
            if matches_endpoint {
                out.checks += 1;
                let args = TransformArgs {
                    response: HttpRequestResult { status: candid::Nat::from(case.status), headers: vec![], body: body.clone() },
                    context: vec![1, 2, 3],
                };
                match crate::sut::guarded(|| f(args)) {
                    Ok(r3) => {
                        if r3 != res {
                            out.fail(format!("{desc}: exported {tname} gives a different result than the endpoint's transform"));
                        }
                    }
                    Err(p) => out.fail(format!("{desc}: exported {tname} trapped: {p}")),
                }
            }
        }
        out
    }
}

/// Raw entry point for the byte-level fuzz target: byte 0 = endpoint, byte 1 = status selector,
/// the rest is the body.
pub fn fuzz_transform(data: &[u8]) -> Outcome {
    let mut out = Outcome::default();
    if data.len() < 2 {
        return out;
    }
    let names = wd::endpoint_names();
    let name = names[data[0] as usize % names.len()];
    let targets = wd::all_canisters();
    wd::set_target(targets[(data[0] as usize / names.len()) % targets.len()]);
    let kind = kind_of(name);
    let status: u32 = match data[1] % 8 {
        0..=4 => 200,
        5 => 404,
        6 => 500,
        _ => data[1] as u32 * 7,
    };
    let body = &data[2..];
    out.checks += 1;
    let hdrs = vec![("X".to_string(), format!("{}", data[1]))];
    let res = match call(name, status, &hdrs, body) {
        Ok(r) => r,
        Err(p) => {
            out.fail(format!("{name}: transform trapped on status {status} body {}: {p}", hex::encode(body)));
            return out;
        }
    };
    let desc = format!("{name} status {status} body {}", hex::encode(&body[..body.len().min(200)]));
    if !res.headers.is_empty() || res.status != candid::Nat::from(status) {
        out.fail(format!("{desc}: headers not stripped or status changed"));
    }
    let found = lookup(kind, body);
    let canon = |n: Option<u64>| match n {
        Some(n) => format!("{{\"height\":{}}}", n).into_bytes(),
        None => b"{\"height\":null}".to_vec(),
    };
    let allowed: Vec<Vec<u8>> = if status != 200 {
        vec![vec![], canon(found.flatten())]
    } else {
        match found {
            Some(Some(n)) => vec![canon(Some(n))],
            Some(None) => vec![vec![], canon(None)],
            None => {
                if kind == Kind::Plain {
                    // text that is not all digits: empty, or a canonical object (e.g. "+12")
                    let mut v = vec![vec![]];
                    if res.body.starts_with(b"{\"height\":") && res.body.ends_with(b"}") {
                        let mid = &res.body[10..res.body.len() - 1];
                        if !mid.is_empty() && mid.iter().all(|b| b.is_ascii_digit()) && (mid.len() == 1 || mid[0] != b'0') {
                            v.push(res.body.clone());
                        }
                    }
                    v
                } else {
                    vec![vec![]]
                }
            }
        }
    };
    if !allowed.contains(&res.body) {
        out.fail(format!("{desc}: result body {:?} is not among the allowed results", String::from_utf8_lossy(&res.body)));
    }
    out
}
