//! C10 — A block is admitted iff it is new, connected and valid; rejects are atomic.
use super::common::*;
use crate::chain::{self, Net};
use crate::engine::{fnv, Outcome, Property, Tier};
use crate::hb::{hb_cfg, mine_strategy, HbWorld, MineSpec, ReplyPlan};
use crate::hist::pick;
use crate::model::H32;
use crate::powmodel::{self as pm, Hdr};
use crate::sut::{self, SutConfig};
use bitcoin::hashes::Hash;
use ic_btc_canister as can;
use proptest::prelude::*;
use serde::{Deserialize, Serialize};

pub struct C10;

#[derive(Clone, Debug, Serialize, Deserialize)]
pub enum Item {
    /// The next not-yet-admitted block whose parent is in the tree (or earlier in the response).
    NextValid,
    /// Any block ever built: duplicates, orphans, children of stable-only ancestors, the anchor.
    AnyKnown(u16),
    Garbage(Vec<u8>),
    Truncated(u16, u16),
    BitFlip(u16, u32),
    /// A fresh block on a tree block with a special timestamp: 0 = MTP (invalid), 1 = MTP+1,
    /// 2 = now+2h (valid edge), 3 = now+2h+1 (invalid), 4 = far future.
    SpecialTime(u16, u8),
    /// A fresh block with wrong bits (0x207ffffe), mined for them.
    WrongBits(u16),
    /// A fresh block whose nonce does not satisfy the target.
    NoWork(u16),
    /// Body mutations of the next valid block: 0 duplicate last tx (merkle preserving when odd),
    /// 1 coinbase not first, 2 empty body, 3 swap without fixing the root, 4 witness-only edit.
    BodyMut(u8, bool),
}

#[derive(Clone, Debug, Serialize, Deserialize)]
pub enum HdrItem {
    /// Header of a not-yet-admitted block following the delivered ones.
    NextValid,
    AnyKnown(u16),
    Garbage(Vec<u8>),
    /// 80 bytes derived from a known header with a flipped bit.
    Flipped(u16, u16),
    Duplicate,
}

#[derive(Clone, Debug, Serialize, Deserialize)]
pub enum Ev10 {
    Mine(MineSpec),
    Respond { items: Vec<Item>, next: Vec<HdrItem> },
    Beat,
}

#[derive(Clone, Debug, Serialize, Deserialize)]
pub struct Case10 {
    pub threshold: u8,
    pub pool: Vec<chain::ScriptSpec>,
    pub evs: Vec<Ev10>,
}

/// Hand-written check that `b` starts with a complete serialised block (header, count, txs).
fn decodes_as_block(b: &[u8]) -> bool {
    if b.len() < 81 {
        return false;
    }
    // reuse the strict transaction grammar of C19 on successive prefixes
    let mut pos = 80;
    let (n, used) = match read_compact(&b[pos..]) {
        Some(x) => x,
        None => return false,
    };
    pos += used;
    if n > b.len() as u64 {
        return false;
    }
    for _ in 0..n {
        match tx_len(&b[pos..]) {
            Some(l) => pos += l,
            None => return false,
        }
    }
    true
}

fn read_compact(b: &[u8]) -> Option<(u64, usize)> {
    let f = *b.first()?;
    match f {
        0..=0xfc => Some((f as u64, 1)),
        0xfd => {
            let v = u16::from_le_bytes(b.get(1..3)?.try_into().ok()?) as u64;
            if v < 0xfd { None } else { Some((v, 3)) }
        }
        0xfe => {
            let v = u32::from_le_bytes(b.get(1..5)?.try_into().ok()?) as u64;
            if v <= 0xffff { None } else { Some((v, 5)) }
        }
        0xff => {
            let v = u64::from_le_bytes(b.get(1..9)?.try_into().ok()?);
            if v <= 0xffff_ffff { None } else { Some((v, 9)) }
        }
    }
}

/// Length of the transaction serialised at the start of `b`, if there is one.
fn tx_len(b: &[u8]) -> Option<usize> {
    // try every prefix length is too slow; parse structurally instead
    let mut p = 4;
    if b.len() < 5 {
        return None;
    }
    let var_bytes = |p: &mut usize| -> Option<()> {
        let (n, u) = read_compact(b.get(*p..)?)?;
        *p += u;
        if n > b.len() as u64 {
            return None;
        }
        *p += n as usize;
        if *p > b.len() { None } else { Some(()) }
    };
    let inputs = |p: &mut usize| -> Option<u64> {
        let (n, u) = read_compact(b.get(*p..)?)?;
        *p += u;
        if n > b.len() as u64 {
            return None;
        }
        for _ in 0..n {
            *p += 36;
            if *p > b.len() {
                return None;
            }
            var_bytes(p)?;
            *p += 4;
            if *p > b.len() {
                return None;
            }
        }
        Some(n)
    };
    let outputs = |p: &mut usize| -> Option<()> {
        let (n, u) = read_compact(b.get(*p..)?)?;
        *p += u;
        if n > b.len() as u64 {
            return None;
        }
        for _ in 0..n {
            *p += 8;
            if *p > b.len() {
                return None;
            }
            var_bytes(p)?;
        }
        Some(())
    };
    if b[4] == 0 {
        if *b.get(5)? != 1 {
            return None;
        }
        p = 6;
        let n_in = inputs(&mut p)?;
        outputs(&mut p)?;
        let mut any = false;
        for _ in 0..n_in {
            let (items, u) = read_compact(b.get(p..)?)?;
            p += u;
            if items > b.len() as u64 {
                return None;
            }
            if items > 0 {
                any = true;
            }
            for _ in 0..items {
                var_bytes(&mut p)?;
            }
        }
        if n_in > 0 && !any {
            return None;
        }
    } else {
        let n_in = inputs(&mut p)?;
        if n_in == 0 {
            return None;
        }
        outputs(&mut p)?;
    }
    p += 4;
    if p > b.len() { None } else { Some(p) }
}

struct Verdict {
    admit: bool,
    reason: &'static str,
    decode_failed: bool,
}

/// The model's verdict on a block offered while the tree is `live_hashes` (+ earlier admitted
/// blocks of the same response, already added to the model).
fn judge_block(hw: &HbWorld, bytes: &[u8], now: u64) -> (Verdict, Option<bitcoin::Block>) {
    if !decodes_as_block(bytes) {
        return (Verdict { admit: false, reason: "does not decode", decode_failed: true }, None);
    }
    let block: bitcoin::Block = match bitcoin::consensus::deserialize_partial::<bitcoin::Block>(bytes) {
        Ok((b, _)) => b,
        Err(_) => return (Verdict { admit: false, reason: "oracle disagreement on decoding", decode_failed: true }, None),
    };
    let m = &hw.w.model;
    let parent = match m.id_of(&block.header.prev_blockhash.to_byte_array()) {
        Some(p) if m.live.contains(&p) => p,
        _ => return (Verdict { admit: false, reason: "parent is not the anchor or an unstable block", decode_failed: false }, Some(block)),
    };
    let hash = block.block_hash().to_byte_array();
    if m.id_of(&hash).map(|id| m.live.contains(&id)).unwrap_or(false) {
        return (Verdict { admit: false, reason: "already present", decode_failed: false }, Some(block));
    }
    // header rules
    let chain = m.chain_to(parent);
    let at = |h: u32| Hdr { bits: m.blocks[chain[h as usize]].block.header.bits.to_consensus(), time: m.blocks[chain[h as usize]].block.header.time };
    let ph = m.blocks[parent].height;
    let mtp = pm::median_time_past(ph, &at);
    let t = block.header.time;
    if !(t > mtp && t as u64 <= now + 7200) {
        return (Verdict { admit: false, reason: "timestamp rule", decode_failed: false }, Some(block));
    }
    let tgt = pm::from_compact(block.header.bits.to_consensus());
    if !pm::declared_target_ok(Net::Regtest, block.header.bits.to_consensus()) {
        return (Verdict { admit: false, reason: "target above maximum", decode_failed: false }, Some(block));
    }
    let mut hb = hash;
    hb.reverse();
    if pm::biguint_from_be(&hb) > tgt {
        return (Verdict { admit: false, reason: "insufficient work", decode_failed: false }, Some(block));
    }
    if tgt != pm::from_compact(pm::next_work_required(Net::Regtest, ph, t, &at)) {
        return (Verdict { admit: false, reason: "wrong target", decode_failed: false }, Some(block));
    }
    // body (C12)
    let txids: Vec<[u8; 32]> = block.txdata.iter().map(|t| t.compute_txid().to_byte_array()).collect();
    let cb_first = block.txdata.first().map(|t| t.input.len() == 1 && t.input[0].previous_output == bitcoin::OutPoint::null()).unwrap_or(false);
    let merkle_ok = super::c12::own_merkle(&txids) == Some(block.header.merkle_root.to_byte_array());
    let mut s = txids.clone();
    s.sort();
    let distinct = s.windows(2).all(|p| p[0] != p[1]);
    if txids.is_empty() || !cb_first || !merkle_ok || !distinct {
        return (Verdict { admit: false, reason: "unsound body", decode_failed: false }, Some(block));
    }
    (Verdict { admit: true, reason: "valid", decode_failed: false }, Some(block))
}

fn next_valid(hw: &HbWorld, already: &[usize]) -> Option<usize> {
    let m = &hw.w.model;
    (0..m.blocks.len()).find(|b| {
        !m.live.contains(b) && !already.contains(b) && hw.source.borrow().known.iter().any(|k| k.hash == m.blocks[*b].hash) && m.blocks[*b].parent.map(|p| m.live.contains(&p) || already.contains(&p)).unwrap_or(false)
    })
}


/// The state a scenario carries from one response to the next.
#[derive(Default)]
pub struct RespondState {
    pub orphaned: std::collections::BTreeSet<H32>,
    pub offered: std::collections::BTreeMap<H32, bitcoin::block::Header>,
    pub fee_tip: Option<usize>,
}

/// Delivers a response with the given contents (the canister must be ready to fetch), lets the
/// canister process it, and judges the outcome. Returns false if the run cannot continue.
#[allow(clippy::too_many_arguments)]
pub fn deliver_and_judge(
    hw: &mut HbWorld,
    blocks: &[Vec<u8>],
    hdrs: &[Vec<u8>],
    fresh: &[(usize, bool)],
    i: usize,
    now: u64,
    st: &mut RespondState,
    out: &mut Outcome,
) -> bool {
    let ctx = format!("event {i}");
    let orphaned = &mut st.orphaned;
    let offered = &mut st.offered;
    let fee_tip = &mut st.fee_tip;
    let blocks: Vec<Vec<u8>> = blocks.to_vec();
    let hdrs: Vec<Vec<u8>> = hdrs.to_vec();
    hw.plan(ReplyPlan::Custom { blocks: blocks.clone(), next: hdrs.clone() });
    // 3. fetch
    let info = hw.heartbeat(None);
    if let Some(p) = &info.trapped {
        out.fail(format!("{ctx}: the heartbeat that fetched the response trapped: {p}"));
        return false;
    }
    if step_errors(&info.step, out) {
        return false;
    }
    if info.requests_issued != 1 {
        out.fail(format!("{ctx}: expected exactly one request, saw {}", info.requests_issued));
        return false;
    }
    // 4. the model's verdicts, in order, against the tree as it is now
    let counters_before = can::with_state(|s| (s.syncing_state.num_block_deserialize_errors, s.syncing_state.num_insert_block_errors));
    let pre_tree: Vec<H32> = sut::tree_hashes();
    let mut expect_admitted: Vec<H32> = vec![];
    let mut verdicts: Vec<&'static str> = vec![];
    let mut failure: Option<(usize, bool)> = None;
    let mut temp_admitted: Vec<usize> = vec![];
    for (k, bytes) in blocks.iter().enumerate() {
        let (v, blk) = judge_block(&hw, bytes, now);
        verdicts.push(v.reason);
        if v.admit {
            let blk = blk.unwrap();
            let hash = blk.block_hash().to_byte_array();
            // Domain of the property: blocks are transaction-valid (the canister does not and is
            // not asked to check spends). A byte-level mutation can re-parent a valid block onto
            // another branch (copied parent hash + regtest work met by chance) where the outputs
            // it spends do not exist: such a response is outside the domain and is not judged.
            {
                let pid = hw.w.model.id_of(&blk.header.prev_blockhash.to_byte_array()).unwrap();
                let ledger = hw.w.model.ledger_at(pid);
                let mut created: std::collections::BTreeSet<(H32, u32)> = Default::default();
                let mut spent: std::collections::BTreeSet<(H32, u32)> = Default::default();
                let mut in_domain = true;
                for tx in &blk.txdata {
                    if !tx.is_coinbase() {
                        for inp in &tx.input {
                            let key = (inp.previous_output.txid.to_byte_array(), inp.previous_output.vout);
                            if !(ledger.contains_key(&key) || created.contains(&key)) || !spent.insert(key) {
                                in_domain = false;
                            }
                        }
                    }
                    let txid = crate::model::txid32(tx);
                    for k in 0..tx.output.len() {
                        created.insert((txid, k as u32));
                    }
                }
                if !in_domain {
                    out.class("skipped_block_spending_missing_output");
                    for id in temp_admitted.iter().rev() {
                        hw.w.model.live.remove(id);
                    }
                    return false;
                }
            }
            expect_admitted.push(hash);
            // make it live in the model so that later items see it
            let id = match hw.w.model.id_of(&hash) {
                Some(id) => {
                    // the body actually offered (it may differ from the block
                    // first built in witness data only, which the hash does not
                    // cover) is what the canister will hold
                    hw.w.model.blocks[id].block = blk.clone();
                    id
                }
                None => {
                    let p = hw.w.model.id_of(&blk.header.prev_blockhash.to_byte_array()).unwrap();
                    hw.w.model.add_block_detached(p, blk.clone(), 1)
                }
            };
            hw.w.model.admit(id);
            temp_admitted.push(id);
        } else {
            failure = Some((k, v.decode_failed));
            match v.reason {
                "already present" => out.class("refused_duplicate"),
                "parent is not the anchor or an unstable block" => {
                    out.class("refused_orphan");
                    if let Some(b) = blk.as_ref() {
                        orphaned.insert(b.block_hash().to_byte_array());
                    }
                }
                "does not decode" => out.class("refused_garbage"),
                "timestamp rule" => out.class("refused_timestamp"),
                "unsound body" => out.class("refused_body"),
                "insufficient work" | "wrong target" | "target above maximum" => out.class("refused_work_or_bits"),
                _ => {}
            }
            break;
        }
    }
    // roll the model back: the sync below admits what the canister admitted
    for id in temp_admitted.iter().rev() {
        hw.w.model.live.remove(id);
    }
    let stored_before: Vec<H32> = can::with_state(|s| s.unstable_blocks.verif_bookkeeping())
        .next_headers
        .iter()
        .map(|(hash, _)| {
            let mut a = [0u8; 32];
            a.copy_from_slice(hash.as_bytes());
            a
        })
        .collect();
    // 5. process
    let info = hw.heartbeat(None);
    out.checks += 1;
    if let Some(p) = &info.trapped {
        out.fail(format!("{ctx}: the heartbeat that processed the response trapped: {p} (verdicts {:?})", verdicts));
        return false;
    }
    if step_errors(&info.step, out) {
        return false;
    }
    let got: Vec<H32> = info.admitted.iter().map(|id| hw.w.model.blocks[*id].hash).collect();
    let mut got_sorted = got.clone();
    got_sorted.sort();
    let mut want_sorted = expect_admitted.clone();
    want_sorted.sort();
    if got_sorted != want_sorted {
        out.fail(format!(
            "{ctx}: the response's blocks have verdicts {:?}: expected {} admitted, the canister admitted {} (tree before: {} blocks)",
            verdicts, expect_admitted.len(), got.len(), pre_tree.len()
        ));
    }
    let counters_after = can::with_state(|s| (s.syncing_state.num_block_deserialize_errors, s.syncing_state.num_insert_block_errors));
    let want_counters = match failure {
        None => counters_before,
        Some((_, true)) => (counters_before.0 + 1, counters_before.1),
        Some((_, false)) => (counters_before.0, counters_before.1 + 1),
    };
    if counters_after != want_counters {
        out.fail(format!("{ctx}: error counters (deserialize, insert) moved from {:?} to {:?}, expected {:?} (verdicts {:?})", counters_before, counters_after, want_counters, verdicts));
    }
    // special timestamp edges that were admitted become regular source blocks
    for (id, _) in fresh {
        if hw.w.model.live.contains(id) {
            out.class("admitted_timestamp_edge");
            let b = &hw.w.model.blocks[*id];
            let parent = b.parent.unwrap();
            let entry = crate::hb::SrcBlock { hash: b.hash, parent: hw.w.model.blocks[parent].hash, bytes: chain::serialize_block(&b.block), header: chain::serialize_header(&b.block.header) };
            hw.source.borrow_mut().known.push(entry);
        }
    }
    // model-based oracles: nothing else changed
    super::c02::check_tip_agreement(&mut hw.w, i, out, fee_tip);
    super::c20::check_bookkeeping(&mut hw.w, i, out);
    for a in hw.w.distinct_addresses() {
        if let Ok(Ok((ans, _))) = sut::get_utxos_all_pages(hw.w.cfg.net, &a, &sut::Filter::None, Some(3)) {
            compare_utxos(&mut hw.w, &a, &ans, out, &format!("{ctx} get_utxos({a})"));
        }
    }
    // stored announced headers must have been offered, be connected (to the tree or
    // to another stored header), carry sufficient work for the regtest target and
    // a timestamp not beyond now+2h, and must not be in the tree
    for h in &hdrs {
        if h.len() >= 80 {
            if let Ok(hd) = bitcoin::consensus::deserialize::<bitcoin::block::Header>(&h[..80]) {
                offered.insert(hd.block_hash().to_byte_array(), hd);
            }
        }
    }
    let snap = can::with_state(|s| s.unstable_blocks.verif_bookkeeping());
    let stored: Vec<H32> = snap
        .next_headers
        .iter()
        .map(|(hash, _)| {
            let mut a = [0u8; 32];
            a.copy_from_slice(hash.as_bytes());
            a
        })
        .collect();
    if failure.is_some() {
        // a refused block drops the rest of the response, announced headers included
        let newly: Vec<&H32> = stored.iter().filter(|a| !stored_before.contains(a)).collect();
        if !newly.is_empty() {
            out.fail(format!(
                "{ctx}: a block of the response was refused ({:?}) but {} of its announced headers were stored (highest announced height now {:?})",
                verdicts, newly.len(), snap.next_headers.iter().map(|(_, h)| *h).max()
            ));
        }
    }
    for ((_, height), a) in snap.next_headers.iter().zip(stored.iter()) {
        if stored_before.contains(a) {
            // connectedness is a condition for storing a header; a header stored
            // earlier may have become stale since (its fork lost)
            continue;
        }
        match offered.get(a) {
            None => out.fail(format!("{ctx}: a header that was never offered is stored as announced")),
            Some(hd) => {
                out.class("announced_valid_stored");
                let prev = hd.prev_blockhash.to_byte_array();
                let parent_height = match hw.w.model.id_of(&prev) {
                    Some(p) if hw.w.model.live.contains(&p) => Some(hw.w.model.blocks[p].height),
                    _ => snap.next_headers.iter().zip(stored.iter()).find(|(_, s)| **s == prev).map(|((_, h), _)| *h),
                };
                match parent_height {
                    None => out.fail(format!("{ctx}: an announced header that connects neither to the tree nor to another announced header is stored")),
                    Some(ph) => {
                        if ph + 1 != *height {
                            out.fail(format!("{ctx}: an announced header is stored with height {height}, its parent is at height {ph}"));
                        }
                    }
                }
                if hd.bits.to_consensus() != chain::REGTEST_BITS || !hd.target().is_met_by(hd.block_hash()) || hd.time as u64 > now + 7200 {
                    out.fail(format!("{ctx}: an invalid header (bits/work/timestamp) is stored as announced"));
                }
                if hw.w.model.id_of(a).map(|id| hw.w.model.live.contains(&id)).unwrap_or(false) {
                    out.fail(format!("{ctx}: an announced header is stored although its block is in the tree"));
                }
            }
        }
    }
    if let Some((k, _)) = failure {
        if k >= 1 {
            out.class("invalid_at_position_ge_1");
        }
        let later_valid = blocks.len() > k + 1;
        if later_valid {
            out.class("valid_after_invalid_dropped");
        }
        if k >= 1 || later_valid {
            out.nontrivial(fnv(format!("{:?}-{}-{}", verdicts, blocks.len(), hdrs.len()).as_bytes()));
        }
    }
    true
}

impl Property for C10 {
    type Case = Case10;
    fn id(&self) -> &'static str {
        "C10"
    }
    fn strategy(&self, tier: Tier) -> BoxedStrategy<Case10> {
        let n = match tier {
            Tier::Quick => 30,
            Tier::Thorough => 60,
        };
        let item = prop_oneof![
            10 => Just(Item::NextValid),
            4 => any::<u16>().prop_map(Item::AnyKnown),
            2 => prop::collection::vec(any::<u8>(), 0..200).prop_map(Item::Garbage),
            2 => (any::<u16>(), 0u16..1000).prop_map(|(a, b)| Item::Truncated(a, b)),
            2 => (any::<u16>(), any::<u32>()).prop_map(|(a, b)| Item::BitFlip(a, b)),
            4 => (any::<u16>(), 0u8..5).prop_map(|(a, b)| Item::SpecialTime(a, b)),
            1 => any::<u16>().prop_map(Item::WrongBits),
            1 => any::<u16>().prop_map(Item::NoWork),
            4 => (0u8..5, any::<bool>()).prop_map(|(a, b)| Item::BodyMut(a, b)),
        ];
        let hdr = prop_oneof![
            6 => Just(HdrItem::NextValid),
            3 => any::<u16>().prop_map(HdrItem::AnyKnown),
            2 => prop::collection::vec(any::<u8>(), 0..120).prop_map(HdrItem::Garbage),
            2 => (any::<u16>(), any::<u16>()).prop_map(|(a, b)| HdrItem::Flipped(a, b)),
            1 => Just(HdrItem::Duplicate),
        ];
        let ev = prop_oneof![
            8 => mine_strategy(2).prop_map(Ev10::Mine),
            8 => (prop::collection::vec(item, 0..5), prop::collection::vec(hdr, 0..5)).prop_map(|(items, next)| Ev10::Respond { items, next }),
            4 => Just(Ev10::Beat),
        ];
        (prop_oneof![3 => 1u8..=2, 3 => 3u8..=6], crate::hist::pool_strategy(), prop::collection::vec(ev, 1..=n))
            .prop_map(|(threshold, pool, evs)| Case10 { threshold, pool, evs })
            .boxed()
    }
    fn cases(&self, tier: Tier) -> u32 {
        match tier {
            Tier::Quick => 30_000,
            Tier::Thorough => 300_000,
        }
    }
    fn raw_target(&self) -> Option<(&'static str, fn(&[u8]) -> Outcome)> {
        Some(("block_bytes", fuzz_response))
    }
    fn rule(&self) -> String {
        "Heartbeat-driver scenarios on regtest in which the block source answers with generated response contents: valid mined blocks in any order, duplicates, orphans, children of stable-only ancestors, the anchor itself, random/truncated/bit-flipped bytes, fresh blocks with timestamp = median-time-past / +1 / now+2h / now+2h+1 / far future, wrong bits, insufficient work, bodies with a duplicated transaction (merkle-preserving), coinbase not first, empty body, unfixed swaps, witness-only edits (each with original or re-mined header), at any position; announced headers that are valid, unconnected, duplicate, bit-flipped or garbage of any length (built through candid decoding). Oracle: an independent predicate (hand-written block grammar, parent live, not present, C11 header rules at the mock time from the big-integer model, C12 structure) decides each block in order; after the heartbeat that processes the response the tree = previous tree + the admitted prefix, exactly one error counter moved by exactly 1 iff a block was refused, no later block of that response is admitted, every model-based query oracle (tip agreement, UTXO sets, bookkeeping exactness) still holds, stored announced headers are valid, connected and not in the tree, and the heartbeat never traps. Non-trivial: a response with a valid block after an invalid one, or an invalid element at position >= 1, or an orphan whose parent arrives later; distinct = (response shape, verdict list) hashes.".into()
    }
    fn assumptions(&self) -> Vec<String> {
        vec![
            "blocks with valid proof of work are transaction-valid (the canister delegates this to proof of work): re-mined mutants are only of kinds that validation refuses, plus witness-only edits".into(),
            "announced headers: the statement only demands that they never trap; in addition stored headers must be valid and connected (no requirement on which valid ones are stored after a bad one)".into(),
        ]
    }
    fn required_classes(&self, _tier: Tier) -> Vec<&'static str> {
        vec![
            "valid_after_invalid_dropped", "invalid_at_position_ge_1", "refused_duplicate", "refused_orphan", "refused_garbage", "refused_timestamp", "refused_body",
            "admitted_timestamp_edge", "orphan_parent_arrives_later", "announced_garbage", "announced_valid_stored", "refused_work_or_bits",
        ]
    }
    fn max_shrink_iters(&self) -> u32 {
        400
    }
    fn fuzz_sequences(&self) -> Vec<(&'static str, usize)> {
        vec![("/evs", 60)]
    }
    fn run(&self, case: &Case10) -> Outcome {
        let mut out = Outcome::default();
        let cfg = hb_cfg(case.threshold, case.pool.clone());
        let mut hw = HbWorld::new(&cfg, SutConfig::new(cfg.net, cfg.threshold as u32));
        let now = sut::NOW_SECS;
        let mut st = RespondState::default();
        let mut special_nonce = 0u64;
        for (i, ev) in case.evs.iter().enumerate() {
            let ctx = format!("event {i}");
            match ev {
                Ev10::Mine(m) => {
                    hw.mine(m.parent, m.prefer_tip, &m.coinbase, &m.txs, m.dt);
                }
                Ev10::Beat => {
                    let info = hw.heartbeat(None);
                    if let Some(p) = &info.trapped {
                        out.fail(format!("{ctx}: heartbeat trapped: {p}"));
                        return out;
                    }
                    if step_errors(&info.step, &mut out) {
                        return out;
                    }
                    for id in &info.admitted {
                        if st.orphaned.contains(&hw.w.model.blocks[*id].hash) {
                            out.class("orphan_parent_arrives_later");
                        }
                    }
                }
                Ev10::Respond { items, next } => {
                    // 1. bring the canister to the point where it asks for blocks
                    let mut guard = 0;
                    loop {
                        let stored = can::with_state(|s| s.syncing_state.response_to_process.is_some());
                        if !stored && !sut::is_ingesting() && hw.w.model.demanded_child().is_none() {
                            break;
                        }
                        let info = hw.heartbeat(None);
                        if info.trapped.is_some() || step_errors(&info.step, &mut out) {
                            if let Some(p) = info.trapped {
                                out.fail(format!("{ctx}: heartbeat trapped: {p}"));
                            }
                            return out;
                        }
                        guard += 1;
                        if guard > 600 {
                            out.fail(format!("{ctx}: the canister never became ready to fetch"));
                            return out;
                        }
                    }
                    // 2. build the response contents against the current model
                    let tree_ids: Vec<usize> = hw.w.model.live.iter().copied().collect();
                    let mut blocks: Vec<Vec<u8>> = vec![];
                    let mut planned: Vec<usize> = vec![];
                    let mut fresh: Vec<(usize, bool)> = vec![]; // (model id, register in source if admitted)
                    for it in items {
                        let all = hw.w.model.blocks.len();
                        match it {
                            Item::NextValid => {
                                if let Some(id) = next_valid(&hw, &planned) {
                                    planned.push(id);
                                    blocks.push(chain::serialize_block(&hw.w.model.blocks[id].block));
                                }
                            }
                            Item::AnyKnown(s) => {
                                let id = pick(*s, all);
                                blocks.push(chain::serialize_block(&hw.w.model.blocks[id].block));
                            }
                            Item::Garbage(g) => blocks.push(g.clone()),
                            Item::Truncated(s, permille) => {
                                let b = chain::serialize_block(&hw.w.model.blocks[pick(*s, all)].block);
                                let keep = b.len() * (*permille as usize) / 1000;
                                blocks.push(b[..keep].to_vec());
                            }
                            Item::BitFlip(s, bit) => {
                                let mut b = chain::serialize_block(&hw.w.model.blocks[pick(*s, all)].block);
                                let k = (*bit as usize) % (b.len() * 8);
                                b[k / 8] ^= 1 << (k % 8);
                                blocks.push(b);
                            }
                            Item::SpecialTime(s, _) | Item::WrongBits(s) | Item::NoWork(s) => {
                                let parent = tree_ids[pick(*s, tree_ids.len())];
                                let m = &hw.w.model;
                                let chain_ids = m.chain_to(parent);
                                let at = |h: u32| Hdr { bits: 0, time: m.blocks[chain_ids[h as usize]].block.header.time };
                                let mtp = pm::median_time_past(m.blocks[parent].height, &at);
                                let time = match it {
                                    Item::SpecialTime(_, 0) => mtp,
                                    Item::SpecialTime(_, 1) => mtp + 1,
                                    Item::SpecialTime(_, 2) => (now + 7200) as u32,
                                    Item::SpecialTime(_, 3) => (now + 7201) as u32,
                                    Item::SpecialTime(_, _) => (now + 1_000_000) as u32,
                                    _ => m.blocks[parent].block.header.time + 5,
                                };
                                special_nonce += 1;
                                let cb = chain::coinbase_tx(m.blocks[parent].height + 1, (1 << 45) + special_nonce, vec![chain::txout(7, hw.w.scripts[0].clone())]);
                                let mut block = chain::build_block(Net::Regtest, m.blocks[parent].block.block_hash(), time, vec![cb], false);
                                match it {
                                    Item::WrongBits(_) => {
                                        block.header.bits = bitcoin::CompactTarget::from_consensus(0x207f_fffe);
                                        chain::mine_header(&mut block.header);
                                    }
                                    Item::NoWork(_) => {
                                        let t = block.header.target();
                                        for n in 0..10_000u32 {
                                            block.header.nonce = n;
                                            if !t.is_met_by(block.header.block_hash()) {
                                                break;
                                            }
                                        }
                                    }
                                    _ => chain::mine_header(&mut block.header),
                                }
                                blocks.push(chain::serialize_block(&block));
                                let id = hw.w.model.add_block_detached(parent, block, 1);
                                fresh.push((id, true));
                            }
                            Item::BodyMut(kind, fix) => {
                                if let Some(id) = next_valid(&hw, &planned) {
                                    let mut b = hw.w.model.blocks[id].block.clone();
                                    let mut witness_only = false;
                                    match kind % 5 {
                                        0 => {
                                            let last = b.txdata.last().unwrap().clone();
                                            b.txdata.push(last);
                                        }
                                        1 => {
                                            if b.txdata.len() > 1 {
                                                b.txdata.swap(0, 1);
                                            } else {
                                                b.txdata[0].input[0].previous_output.vout = 0;
                                            }
                                        }
                                        2 => b.txdata.clear(),
                                        3 => {
                                            if b.txdata.len() > 2 {
                                                let n = b.txdata.len();
                                                b.txdata.swap(1, n - 1);
                                            } else {
                                                b.txdata[0].output.push(chain::txout(1, bitcoin::ScriptBuf::new()));
                                            }
                                        }
                                        _ => {
                                            witness_only = true;
                                            if b.txdata.len() > 1 {
                                                let mut w = bitcoin::Witness::new();
                                                w.push(vec![i as u8, 9, 9]);
                                                b.txdata[1].input[0].witness = w;
                                            }
                                        }
                                    }
                                    if *fix && !witness_only && kind % 5 != 3 {
                                        b.header.merkle_root = b.compute_merkle_root().unwrap_or(bitcoin::TxMerkleNode::all_zeros());
                                        b.header.nonce = 0;
                                        chain::mine_header(&mut b.header);
                                    }
                                    if witness_only {
                                        planned.push(id);
                                    }
                                    blocks.push(chain::serialize_block(&b));
                                }
                            }
                        }
                    }
                    // announced headers
                    let mut hdrs: Vec<Vec<u8>> = vec![];
                    let mut announced_candidates: Vec<usize> = planned.clone();
                    for h in next {
                        let all = hw.w.model.blocks.len();
                        match h {
                            HdrItem::NextValid => {
                                if let Some(id) = next_valid(&hw, &announced_candidates) {
                                    announced_candidates.push(id);
                                    hdrs.push(chain::serialize_header(&hw.w.model.blocks[id].block.header));
                                }
                            }
                            HdrItem::AnyKnown(s) => hdrs.push(chain::serialize_header(&hw.w.model.blocks[pick(*s, all)].block.header)),
                            HdrItem::Garbage(g) => hdrs.push(g.clone()),
                            HdrItem::Flipped(s, bit) => {
                                let mut b = chain::serialize_header(&hw.w.model.blocks[pick(*s, all)].block.header);
                                let k = (*bit as usize) % 640;
                                b[k / 8] ^= 1 << (k % 8);
                                hdrs.push(b);
                            }
                            HdrItem::Duplicate => {
                                if let Some(l) = hdrs.last().cloned() {
                                    hdrs.push(l);
                                }
                            }
                        }
                    }
                    if hdrs.iter().any(|h| h.len() != 80) {
                        out.class("announced_garbage");
                    }
                    if !deliver_and_judge(&mut hw, &blocks, &hdrs, &fresh, i, now, &mut st, &mut out) {
                        return out;
                    }
                }
            }
        }
        out
    }
}

fn fuzz_base(hw: &mut HbWorld) -> Vec<usize> {
    use crate::hist::TxSpec;
    let tx = TxSpec { inputs: vec![100, 50000], outs: vec![(0, 5), (1, 3)], fee_permille: 5, witness: Some(3) };
    let mut ids = vec![];
    ids.push(hw.mine_on(0, &[(0, 5), (1, 5)], &[], 10));
    ids.push(hw.mine_on(ids[0], &[(0, 1)], &[tx.clone()], 10));
    ids.push(hw.mine_on(ids[1], &[(1, 1)], &[], 10));
    ids.push(hw.mine_on(ids[2], &[(0, 2)], &[tx.clone()], 10));
    ids.push(hw.mine_on(ids[0], &[(1, 7)], &[], 10)); // a fork block
    // the first two are already part of the canister's view
    for id in &ids[..2] {
        let b = hw.w.model.blocks[*id].block.clone();
        let _ = hw.w.push_to_sut(&b, 1);
        hw.w.model.admit(*id);
    }
    ids
}

fn split_items(data: &[u8]) -> (Vec<Vec<u8>>, Vec<Vec<u8>>) {
    // [n_blocks:1] { [len:2 LE] bytes }* [n_hdrs:1] { [len:1] bytes }*
    let mut p = 0usize;
    let mut blocks = vec![];
    let mut hdrs = vec![];
    let nb = data.first().copied().unwrap_or(0) % 4;
    p += 1;
    for _ in 0..nb {
        if p + 2 > data.len() {
            break;
        }
        let l = u16::from_le_bytes([data[p], data[p + 1]]) as usize;
        p += 2;
        let e = (p + l).min(data.len());
        blocks.push(data[p..e].to_vec());
        p = e;
    }
    let nh = data.get(p).copied().unwrap_or(0) % 4;
    p += 1;
    for _ in 0..nh {
        if p >= data.len() {
            break;
        }
        let l = data[p] as usize;
        p += 1;
        let e = (p + l).min(data.len());
        hdrs.push(data[p..e].to_vec());
        p = e;
    }
    (blocks, hdrs)
}

/// Raw entry point for the byte-level fuzz target: a fixed base scenario (two blocks admitted,
/// three more known to the source) and a response whose blocks and announced headers are cut
/// out of the input bytes.
pub fn fuzz_response(data: &[u8]) -> Outcome {
    let mut out = Outcome::default();
    let cfg = hb_cfg(3, vec![chain::ScriptSpec::P2pkh(0), chain::ScriptSpec::P2wpkh(1)]);
    let mut hw = HbWorld::new(&cfg, SutConfig::new(cfg.net, cfg.threshold as u32));
    fuzz_base(&mut hw);
    let (blocks, hdrs) = split_items(data);
    let mut st = RespondState::default();
    deliver_and_judge(&mut hw, &blocks, &hdrs, &[], 0, sut::NOW_SECS, &mut st, &mut out);
    out
}

/// Corpus seeds for `fuzz_response`: the valid not-yet-admitted blocks and their headers.
pub fn fuzz_response_seeds() -> Vec<Vec<u8>> {
    let cfg = hb_cfg(3, vec![chain::ScriptSpec::P2pkh(0), chain::ScriptSpec::P2wpkh(1)]);
    let mut hw = HbWorld::new(&cfg, SutConfig::new(cfg.net, cfg.threshold as u32));
    let ids = fuzz_base(&mut hw);
    let enc = |blocks: &[Vec<u8>], hdrs: &[Vec<u8>]| {
        let mut d = vec![blocks.len() as u8];
        for b in blocks {
            d.extend((b.len() as u16).to_le_bytes());
            d.extend(b);
        }
        d.push(hdrs.len() as u8);
        for h in hdrs {
            d.push(h.len() as u8);
            d.extend(h);
        }
        d
    };
    let b = |i: usize| chain::serialize_block(&hw.w.model.blocks[ids[i]].block);
    let h = |i: usize| chain::serialize_header(&hw.w.model.blocks[ids[i]].block.header);
    vec![
        enc(&[b(2)], &[h(3)]),
        enc(&[b(2), b(3)], &[]),
        enc(&[b(4), b(2)], &[h(3)]),
        enc(&[b(3)], &[h(2), h(3)]),
        enc(&[b(1)], &[h(4)]),
        enc(&[], &[h(2), h(3), h(4)]),
    ]
}
