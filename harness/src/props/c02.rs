//! C02 — Every endpoint serves the heaviest chain and agrees on its tip.
use super::common::*;
use crate::engine::{Outcome, Property, Tier};
use crate::hist::{history_brief, history_strategy, History, World};
use crate::model::percentiles;
use crate::sut::{self, Filter};
use bitcoin::hashes::Hash;
use proptest::prelude::*;
use proptest::strategy::{BoxedStrategy, Strategy};

pub struct C02;

const THRESHOLD_EXH: u8 = 100;

pub fn check_tip_agreement(w: &mut World, i: usize, out: &mut Outcome, fee_observed_tip: &mut Option<usize>) {
    let net = w.cfg.net;
    let best = w.model.best_chain();
    let tip = *best.last().unwrap();
    let tip_hash = w.model.blocks[tip].hash;
    let tip_height = w.model.blocks[tip].height;
    out.checks += 1;
    match sut::info() {
        Ok(info) => {
            if info.hash != tip_hash.to_vec() || info.height != tip_height {
                out.fail(format!(
                    "step {i}: get_blockchain_info reports tip {}@{} but the heaviest branch ends in {}@{}",
                    hx(&info.hash), info.height, hx(&tip_hash), tip_height
                ));
            } else {
                let b = &w.model.blocks[tip];
                if info.timestamp != b.block.header.time {
                    out.fail(format!("step {i}: get_blockchain_info timestamp {} != tip's {}", info.timestamp, b.block.header.time));
                }
                if info.difficulty != b.diff {
                    out.fail(format!("step {i}: get_blockchain_info difficulty {} != tip's {}", info.difficulty, b.diff));
                }
            }
        }
        Err(p) => out.fail(format!("step {i}: get_blockchain_info trapped: {p}")),
    }
    let addrs = w.distinct_addresses();
    for a in addrs.iter() {
        out.checks += 1;
        match sut::get_utxos(net, a, &Filter::None, false) {
            Ok(Ok(ans)) => {
                if ans.tip_hash != tip_hash.to_vec() || ans.tip_height != tip_height {
                    out.fail(format!(
                        "step {i}: unfiltered get_utxos({a}) names tip {}@{} but the heaviest branch ends in {}@{}",
                        hx(&ans.tip_hash), ans.tip_height, hx(&tip_hash), tip_height
                    ));
                }
            }
            Ok(Err(e)) => out.fail(format!("step {i}: get_utxos({a}) error {e}")),
            Err(p) => out.fail(format!("step {i}: get_utxos({a}) trapped: {p}")),
        }
        out.checks += 1;
        let expect: u64 = w.model.utxos_of(a, tip).iter().map(|u| u.1).sum();
        match sut::get_balance(net, a, None, false) {
            Ok(Ok(b)) => {
                if b != expect {
                    out.fail(format!("step {i}: get_balance({a}) = {b} but the balance at the heaviest tip is {expect}"));
                }
            }
            Ok(Err(e)) => out.fail(format!("step {i}: get_balance({a}) error {e}")),
            Err(p) => out.fail(format!("step {i}: get_balance({a}) trapped: {p}")),
        }
    }
    // headers: no end -> up to the tip
    let start = tip_height.saturating_sub(3);
    out.checks += 1;
    match sut::get_block_headers(net, start, None) {
        Ok(Ok(h)) => {
            let want_tip = tip_height.min(start + 99);
            if h.tip_height != want_tip {
                out.fail(format!("step {i}: get_block_headers({start},none).tip_height = {} expected {}", h.tip_height, want_tip));
            } else if let Some(last) = h.headers.last() {
                let hash = bitcoin::block::Header::block_hash(
                    &bitcoin::consensus::deserialize::<bitcoin::block::Header>(last).unwrap_or_else(|_| w.model.blocks[0].block.header),
                )
                .to_byte_array();
                let chain = w.model.chain_to(tip);
                let want = w.model.blocks[chain[want_tip as usize]].hash;
                if hash != want {
                    out.fail(format!("step {i}: last header of get_block_headers is {} but the best-chain block at height {} is {}", hx(&hash), want_tip, hx(&want)));
                }
            } else {
                out.fail(format!("step {i}: get_block_headers({start},none) returned no headers"));
            }
        }
        Ok(Err(e)) => out.fail(format!("step {i}: get_block_headers error {e}")),
        Err(p) => out.fail(format!("step {i}: get_block_headers trapped: {p}")),
    }
    // The percentiles are computed when a tip is first observed and kept until the tip changes
    // (C15 checks the caching rules in full); here: a newly observed tip must be answered from
    // the heaviest chain's transactions.
    if *fee_observed_tip != Some(tip) {
        *fee_observed_tip = Some(tip);
        let rates = w.model.fee_rates_recent_first(&best, 10_000);
        if !rates.is_empty() {
            out.checks += 1;
            let want = percentiles(rates);
            match sut::fee_percentiles(net) {
                Ok(got) => {
                    if got != want {
                        out.fail(format!("step {i}: fee percentiles differ from those of the heaviest chain's transactions (got[0..3]={:?} want[0..3]={:?}, got[100]={:?} want[100]={:?})",
                            &got.iter().take(3).collect::<Vec<_>>(), &want.iter().take(3).collect::<Vec<_>>(), got.last(), want.last()));
                    }
                }
                Err(p) => out.fail(format!("step {i}: fee percentiles trapped: {p}")),
            }
        }
    }
}

impl Property for C02 {
    type Case = History;
    fn id(&self) -> &'static str {
        "C02"
    }
    fn strategy(&self, tier: Tier) -> BoxedStrategy<History> {
        match tier {
            Tier::Quick => prop_oneof![6 => history_strategy(24, 2, true, true), 2 => crate::hist::small_difficulty_tree_strategy(5, 9, THRESHOLD_EXH), 1 => crate::hist::tie_side_branch_strategy(THRESHOLD_EXH)].boxed(),
            Tier::Thorough => prop_oneof![6 => history_strategy(48, 3, true, true), 2 => crate::hist::small_difficulty_tree_strategy(6, 12, THRESHOLD_EXH), 1 => crate::hist::tie_side_branch_strategy(THRESHOLD_EXH)].boxed(),
        }
    }
    fn cases(&self, tier: Tier) -> u32 {
        match tier {
            Tier::Quick => 50_000,
            Tier::Thorough => 500_000,
        }
    }
    fn rule(&self) -> String {
        "Generated fork trees (arrival orders, difficulty modes equal / constant / random 1..20 / heavy-short-vs-light-long, thresholds 1..12, three networks, upgrades, threshold changes; two cases in nine are uniformly drawn fork trees and one in nine is a constructed pair of exactly tied branches with a side branch of difficulty-1 blocks below one of them; the uniformly drawn ones are a fork tree of 5..9 (thorough 6..12) blocks with difficulties from {1,2,3}, where exact ties and nested lighter-but-longer side branches are frequent); after every operation the model's best tip (maximum over all leaf paths of (accumulated difficulty, length), remaining ties by first-received child at the first divergence) is compared with get_blockchain_info (hash, height, timestamp, difficulty), the tip named by unfiltered get_utxos for every pool address, get_balance against the model ledger at that tip, get_block_headers without end, and the fee percentiles. A state is non-trivial when the tree has >= 2 leaves and (the best chain is not the longest, or there is an exact tie on accumulated difficulty, or the best tip changed to another branch in this step); distinct = distinct tree-shape hashes.".into()
    }
    fn assumptions(&self) -> Vec<String> {
        vec![
            "per-block difficulties are assigned through the repository's mock_difficulty feature".into(),
            "on mainnet/testnet blocks are pushed without header validation (as the repository's tests do)".into(),
        ]
    }
    fn brief(&self, case: &History) -> serde_json::Value {
        history_brief(case)
    }
    fn required_classes(&self, _tier: Tier) -> Vec<&'static str> {
        vec!["best_not_longest", "exact_difficulty_tie", "tie_loser_has_deeper_subtree", "step_reorg", "step_anchor_advance", "net_mainnet", "net_testnet", "net_regtest"]
    }
    fn extra_cases(&self, tier: Tier) -> Vec<History> {
        // exhaustive: every fork tree (shape x arrival order) x difficulties in {1,2,3}
        let mut v = vec![];
        let nmax = match tier {
            Tier::Quick => 4,
            Tier::Thorough => 6,
        };
        for n in 1..=nmax {
            let net = [crate::chain::Net::Mainnet, crate::chain::Net::Testnet, crate::chain::Net::Regtest][n % 3];
            v.extend(crate::hist::exhaustive_trees(n, net, THRESHOLD_EXH));
        }
        v
    }
    fn fuzz_sequences(&self) -> Vec<(&'static str, usize)> {
        vec![("/ops", 48)]
    }
    fn run(&self, case: &History) -> Outcome {
        let mut out = Outcome::default();
        let mut w = World::new(&case.cfg);
        history_classes(case, &mut out);
        let mut fee_tip = None;
        for (i, op) in case.ops.iter().enumerate() {
            let info = w.apply(i, op);
            if step_errors(&info, &mut out) {
                return out;
            }
            step_classes(&w, &info, &mut out);
            check_tip_agreement(&mut w, i, &mut out, &mut fee_tip);
            // classification
            let m = &w.model;
            let paths = m.leaf_paths(m.anchor);
            if paths.len() >= 2 {
                let best = m.best_chain();
                let longest = paths.iter().map(|p| p.len()).max().unwrap();
                let not_longest = best.len() < longest;
                let keys: Vec<u128> = paths.iter().map(|p| p.iter().map(|b| m.blocks[*b].diff).sum()).collect();
                let maxd = *keys.iter().max().unwrap();
                let tie = keys.iter().filter(|k| **k == maxd).count() >= 2;
                if not_longest {
                    out.class("best_not_longest");
                }
                if tie {
                    out.class("exact_difficulty_tie");
                    if !m.best_chain_is_tie_free() {
                        out.class("tie_decided_by_arrival_order");
                    }
                }
                // a tie (on difficulty) at a divergence of the best chain whose losing side has a
                // lighter but longer side branch: its subtree is deeper than the winner's chain
                {
                    let sum = |c: &Vec<usize>| -> u128 { c.iter().map(|b| m.blocks[*b].diff).sum() };
                    for win in best.windows(2) {
                        let (node, w_child) = (win[0], win[1]);
                        let w_chain = m.best_chain_from(w_child);
                        for c in m.blocks[node].children.iter().filter(|c| **c != w_child && m.live.contains(*c)) {
                            if sum(&m.best_chain_from(*c)) == sum(&w_chain) && m.depth(*c) as usize > w_chain.len() {
                                out.class("tie_loser_has_deeper_subtree");
                            }
                        }
                    }
                }
                if not_longest || tie || info.reorg {
                    out.nontrivial(shape(&w, &[not_longest as u64, tie as u64, info.reorg as u64]));
                }
            }
        }
        out
    }
}
