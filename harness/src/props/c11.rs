//! C11 — Header acceptance equals the Bitcoin consensus header rules.
use crate::chain::{self, Net};
use crate::engine::{fnv, Outcome, Property, Tier};
use crate::powmodel::{self as pm, Hdr};
use bitcoin::block::{Header, Version};
use bitcoin::hashes::Hash;
use bitcoin::{BlockHash, CompactTarget, TxMerkleNode};
use ic_btc_validation::{HeaderStore, HeaderValidator};
use proptest::prelude::*;
use serde::{Deserialize, Serialize};
use std::collections::HashMap;
use std::rc::Rc;
use std::time::Duration;

pub struct C11;

#[derive(Clone, Debug, Serialize, Deserialize)]
pub struct Probe {
    /// Height selector (prev height) relative to interesting points.
    pub at: u8,
    pub at_raw: u16,
    /// Timestamp of the candidate relative to prev.time.
    pub dt: i32,
}

#[derive(Clone, Debug, Serialize, Deserialize)]
pub enum Case11 {
    /// Synthetic (unmined) chain; compares the required-target hook and the timestamp rule.
    Synthetic {
        net: Net,
        len: u16,
        /// Base bits per 2016-block period (index by period, cycled).
        period_bits: Vec<u32>,
        /// Per-block time deltas (cycled); > 1200 produces a min-difficulty block on test networks.
        dts: Vec<i16>,
        /// Probability pattern of min-difficulty bits: block h uses limit bits if dts says >1200,
        /// or additionally if (h * mul) % 7 < run.
        run: u8,
        probes: Vec<Probe>,
        now_offset: i32,
        /// With net = Testnet: use the validation crate's testnet3 parameters (no BIP94) instead
        /// of testnet4 (the canister itself only uses testnet4).
        #[serde(default)]
        testnet3: bool,
    },
    /// The canister's header store (stable store + unstable chain + announced headers) as seen
    /// by the validation of a candidate header, compared with the model chain after every step of
    /// a generated history on any network (no mining needed for the lookups).
    Lookup { hist: crate::hist::History, probes: Vec<u16> },
    /// Mined regtest chain validated end to end.
    Regtest {
        len: u8,
        dts: Vec<u16>,
        cand_dt: i32,
        cand_bits: u8,
        cand_mined: bool,
        cand_unknown_parent: bool,
        now_rel: i32,
    },
}

struct Chain {
    headers: Vec<Header>,
    by_hash: HashMap<BlockHash, usize>,
}

#[derive(Clone)]
struct View {
    chain: Rc<Chain>,
    tip: u32,
}

impl HeaderStore for View {
    fn get_with_block_hash(&self, hash: &BlockHash) -> Option<Header> {
        self.chain.by_hash.get(hash).filter(|i| **i as u32 <= self.tip).map(|i| self.chain.headers[*i])
    }
    fn get_with_height(&self, height: u32) -> Option<Header> {
        if height <= self.tip {
            self.chain.headers.get(height as usize).copied()
        } else {
            None
        }
    }
    fn height(&self) -> u32 {
        self.tip
    }
}

fn limit_bits(net: Net) -> u32 {
    pm::to_compact(&pm::pow_limit(net))
}

fn sanitize_bits(net: Net, bits: u32) -> u32 {
    // keep the target positive, non-zero and <= the network maximum
    let mant = (bits & 0x007f_ffff).max(0x0001_0000);
    let max_exp = if net == Net::Regtest { 0x20 } else { 0x1d };
    let exp = ((bits >> 24) % (max_exp - 3 + 1)) + 3;
    let b = (exp << 24) | mant;
    if pm::from_compact(b) > pm::pow_limit(net) {
        limit_bits(net)
    } else {
        b
    }
}

fn build_synthetic(net: Net, len: u16, period_bits: &[u32], dts: &[i16], run: u8) -> Chain {
    let g = chain::genesis(net).header;
    let mut headers = vec![g];
    let lim = limit_bits(net);
    for h in 1..=len as u32 {
        let prev = headers[(h - 1) as usize];
        let dt = dts[(h as usize) % dts.len()] as i64;
        let time = (prev.time as i64 + dt).max(1) as u32;
        let base = sanitize_bits(net, period_bits[(h / pm::INTERVAL) as usize % period_bits.len()]);
        let min_diff = pm::allow_min_difficulty(net) && (dt > 1200 || (h.wrapping_mul(2654435761) >> 7) % 7 < run as u32);
        let bits = if min_diff && h % pm::INTERVAL != 0 { lim } else { base };
        headers.push(Header {
            version: Version::from_consensus(0x2000_0000),
            prev_blockhash: prev.block_hash(),
            merkle_root: TxMerkleNode::all_zeros(),
            time,
            bits: CompactTarget::from_consensus(bits),
            nonce: h,
        });
    }
    let by_hash = headers.iter().enumerate().map(|(i, h)| (h.block_hash(), i)).collect();
    Chain { headers, by_hash }
}

fn probe_height(len: u32, p: &Probe) -> u32 {
    let around = |c: i64, off: i64| -> u32 { (c + off).clamp(0, len as i64) as u32 };
    match p.at % 8 {
        0 => around(2015, (p.at_raw % 5) as i64 - 2),
        1 => around(4031, (p.at_raw % 5) as i64 - 2),
        2 => around(len as i64, -((p.at_raw % 4) as i64)),
        3 => around(0, (p.at_raw % 14) as i64),
        4 => around(2016, (p.at_raw % 30) as i64),
        _ => p.at_raw as u32 % (len + 1),
    }
}

fn target_to_big(t: bitcoin::Target) -> num_bigint::BigUint {
    pm::biguint_from_be(&t.to_be_bytes())
}

impl Property for C11 {
    type Case = Case11;
    fn id(&self) -> &'static str {
        "C11"
    }
    fn strategy(&self, tier: Tier) -> BoxedStrategy<Case11> {
        let long_w = match tier {
            Tier::Quick => 1,
            Tier::Thorough => 2,
        };
        let probe = (any::<u8>(), any::<u16>(), prop_oneof![4 => 1i32..1200, 2 => Just(1200i32), 2 => Just(1201i32), 2 => 1201i32..8000, 1 => -4000i32..1, 1 => Just(i32::MAX / 4)])
            .prop_map(|(at, at_raw, dt)| Probe { at, at_raw, dt });
        let bits = prop_oneof![
            3 => Just(0x1d00ffffu32),
            2 => Just(0x1c0fffffu32),
            2 => Just(0x1b04864cu32),
            2 => Just(0x170e0408u32),
            2 => Just(0x207fffffu32),
            3 => any::<u32>(),
        ];
        let synthetic = (
            prop_oneof![Just(Net::Mainnet), Just(Net::Testnet), Just(Net::Regtest)],
            prop_oneof![4 => 1u16..40, 2 => 2010u16..2030, long_w => 4028u16..4100],
            prop::collection::vec(bits, 1..4),
            prop::collection::vec(prop_oneof![6 => 1i16..1200, 2 => 1201i16..5000, 1 => -600i16..0, 1 => Just(600i16)], 1..30),
            0u8..4,
            prop::collection::vec(probe, 4..40),
            prop_oneof![Just(0i32), -8000i32..8000],
            prop_oneof![3 => Just(false), 1 => Just(true)],
        )
            .prop_map(|(net, len, period_bits, dts, run, probes, now_offset, testnet3)| Case11::Synthetic { net, len, period_bits, dts, run, probes, now_offset, testnet3: testnet3 && net == Net::Testnet });
        let regtest = (
            1u8..25,
            prop::collection::vec(prop_oneof![5 => 1u16..1200, 2 => 1201u16..4000], 1..12),
            prop_oneof![3 => 1i32..1300, 2 => -3000i32..1, 1 => Just(0i32), 2 => 7000i32..7400],
            0u8..10,
            prop_oneof![4 => Just(true), 1 => Just(false)],
            prop_oneof![9 => Just(false), 1 => Just(true)],
            prop_oneof![2 => Just(100_000i32), 3 => -7300i32..200],
        )
            .prop_map(|(len, dts, cand_dt, cand_bits, cand_mined, cand_unknown_parent, now_rel)| Case11::Regtest { len, dts, cand_dt, cand_bits, cand_mined, cand_unknown_parent, now_rel });
        let lookup = (crate::hist::history_strategy(30, 1, true, true), prop::collection::vec(any::<u16>(), 1..4)).prop_map(|(hist, probes)| Case11::Lookup { hist, probes });
        prop_oneof![6 => synthetic, 4 => regtest, 1 => lookup].boxed()
    }
    fn cases(&self, tier: Tier) -> u32 {
        match tier {
            Tier::Quick => 100_000,
            Tier::Thorough => 1_000_000,
        }
    }
    fn rule(&self) -> String {
        "(i) Synthetic unmined header chains of 1..40, 2010..2030 or 4028..4100 headers on mainnet, testnet4 and regtest with per-period base bits (real mainnet values and random, kept <= the network maximum), per-block time deltas (incl. > 20 minutes and negative) and min-difficulty runs; at 4..40 probes per chain (heights around 2015/2016, 4031/4032, 0 and the tip; candidate timestamps around prev+1200/1201 and far away) the hook's required target is compared as a 256-bit value with a big-integer port of Bitcoin Core's GetNextWorkRequired (2016 retarget with the 4x clamp, BIP94 base on testnet4, 20-minute rule and walk-back on testnet4/regtest, no retargeting on regtest), and the timestamp rule (time > median of up to 11, time <= now+2h) with its model; validate_header itself must reject every unmined candidate on mainnet/testnet and never trap. (ii) Mined regtest chains (1..25 headers) with a candidate whose time, bits, work and parent are perturbed: accepted <=> all five clauses of the model. (iii) The canister's own header store (stable header store + unstable chain + announced headers), as seen when a candidate header on any tree block is validated, is compared after every step of generated histories on all networks with the model chain: height, lookup by every height and by every hash, refusal of known and unconnected headers. Non-trivial: probe height within 2 of a multiple of 2016, or a > 20-minute gap, or a walk-back over >= 2 min-difficulty headers, or a timestamp within 1 s of the median / the +2h limit; distinct = (net, probe, chain hash).".into()
    }
    fn assumptions(&self) -> Vec<String> {
        vec![
            "acceptance of a mined mainnet/testnet header is not executed end to end (2^32 work); the required-target function and timestamp rule are compared directly".into(),
            "synthetic chains keep every target positive and <= the network maximum (Core's 256-bit arithmetic would wrap otherwise)".into(),
        ]
    }
    fn required_classes(&self, tier: Tier) -> Vec<&'static str> {
        let mut v = vec!["probe_at_retarget_boundary", "gap_over_20_minutes", "walk_back_ge_2", "timestamp_on_mtp_edge", "timestamp_on_2h_edge", "regtest_accepted", "regtest_rejected", "retarget_clamped", "overflowing_compact_target", "testnet3_parameters", "canister_header_store_lookup", "lookup_through_announced_headers"];
        if tier == Tier::Thorough {
            v.push("second_retarget_boundary");
        }
        v
    }
    fn max_shrink_iters(&self) -> u32 {
        300
    }
    fn run(&self, case: &Case11) -> Outcome {
        let mut out = Outcome::default();
        match case {
            Case11::Synthetic { net, len, period_bits, dts, run, probes, now_offset, testnet3 } => {
                let btc_net = if *testnet3 { bitcoin::Network::Testnet } else { net.btc() };
                let bip94 = pm::enforce_bip94(*net) && !*testnet3;
                if *testnet3 {
                    out.class("testnet3_parameters");
                }
                let chain = Rc::new(build_synthetic(*net, *len, period_bits, dts, *run));
                let chain_hash = fnv(format!("{:?}{:?}{:?}{}", net, period_bits, dts, run).as_bytes());
                let lim = limit_bits(*net);
                for p in probes {
                    let ph = probe_height(*len as u32, p);
                    let prev = chain.headers[ph as usize];
                    let ts = (prev.time as i64 + p.dt as i64).clamp(1, u32::MAX as i64) as u32;
                    let view = View { chain: chain.clone(), tip: ph };
                    let validator = HeaderValidator::new(view, btc_net);
                    let at = |h: u32| Hdr { bits: chain.headers[h as usize].bits.to_consensus(), time: chain.headers[h as usize].time };
                    out.checks += 1;
                    let got = crate::sut::guarded(|| validator.verif_next_target(&prev, ph, ts));
                    let want_bits = pm::next_work_required_ext(*net, bip94, ph, ts, &at);
                    let want = pm::from_compact(want_bits);
                    match got {
                        Err(e) => out.fail(format!("{net:?} height {}: required-target computation trapped: {e}", ph + 1)),
                        Ok(t) => {
                            if target_to_big(t) != want {
                                out.fail(format!(
                                    "{net:?}: required target for the header at height {} (time prev{:+}) is {:#x}, consensus requires {:#x} (bits {:#x}); prev bits {:#x}",
                                    ph + 1, p.dt, target_to_big(t), want, want_bits, prev.bits.to_consensus()
                                ));
                            }
                        }
                    }
                    // timestamp rule
                    let now = (prev.time as i64 + *now_offset as i64).max(0) as u64;
                    let cand = Header {
                        version: Version::from_consensus(0x2000_0000),
                        prev_blockhash: prev.block_hash(),
                        merkle_root: TxMerkleNode::all_zeros(),
                        time: ts,
                        bits: CompactTarget::from_consensus(want_bits),
                        nonce: 0,
                    };
                    let mtp = pm::median_time_past(ph, &at);
                    let want_ts_ok = ts > mtp && ts as u64 <= now + 7200;
                    out.checks += 1;
                    match crate::sut::guarded(|| validator.verif_is_timestamp_valid(&cand, Duration::from_secs(now))) {
                        Err(e) => out.fail(format!("timestamp check trapped: {e}")),
                        Ok(r) => {
                            if r.is_ok() != want_ts_ok {
                                out.fail(format!(
                                    "{net:?} height {}: timestamp {} with median-time-past {} and now {}: implementation says {:?}, the rule says {}",
                                    ph + 1, ts, mtp, now, r, if want_ts_ok { "valid" } else { "invalid" }
                                ));
                            }
                        }
                    }
                    // the full validation of an unmined candidate never traps; on mainnet/testnet
                    // it cannot be accepted (the hash will not meet a 2^-32 target).
                    out.checks += 1;
                    match crate::sut::guarded(|| validator.validate_header(&cand, Duration::from_secs(now))) {
                        Err(e) => out.fail(format!("validate_header trapped: {e}")),
                        Ok(r) => {
                            if r.is_ok() && *net != Net::Regtest && pm::from_compact(want_bits) <= pm::pow_limit(*net) && !cand.target().is_met_by(cand.block_hash()) {
                                out.fail(format!("{net:?}: a header whose hash does not meet its target was accepted"));
                            }
                            if r.is_ok() && !want_ts_ok {
                                out.fail(format!("{net:?}: a header with an invalid timestamp was accepted"));
                            }
                        }
                    }
                    // classification
                    let height = ph + 1;
                    let near_boundary = (height % pm::INTERVAL) <= 2 || (height % pm::INTERVAL) >= pm::INTERVAL - 2;
                    let gap = p.dt > 1200 && pm::allow_min_difficulty(*net);
                    let mut back = 0;
                    if pm::allow_min_difficulty(*net) && p.dt <= 1200 && height % pm::INTERVAL != 0 {
                        let mut h = ph;
                        while h > 0 && h % pm::INTERVAL != 0 && chain.headers[h as usize].bits.to_consensus() == lim {
                            back += 1;
                            h -= 1;
                        }
                    }
                    let mtp_edge = (ts as i64 - mtp as i64).abs() <= 1;
                    let h2_edge = (ts as i64 - (now as i64 + 7200)).abs() <= 1;
                    if near_boundary && height >= pm::INTERVAL - 2 {
                        out.class("probe_at_retarget_boundary");
                        if height >= 2 * pm::INTERVAL - 2 {
                            out.class("second_retarget_boundary");
                        }
                        if height % pm::INTERVAL == 0 && !pm::no_retargeting(*net) {
                            let first = chain.headers[(height - pm::INTERVAL) as usize];
                            let span = prev.time as i64 - first.time as i64;
                            if span < pm::TARGET_TIMESPAN / 4 || span > pm::TARGET_TIMESPAN * 4 {
                                out.class("retarget_clamped");
                            }
                        }
                    }
                    if gap {
                        out.class("gap_over_20_minutes");
                    }
                    if back >= 2 {
                        out.class("walk_back_ge_2");
                    }
                    if mtp_edge {
                        out.class("timestamp_on_mtp_edge");
                    }
                    if h2_edge {
                        out.class("timestamp_on_2h_edge");
                    }
                    if (near_boundary && height >= pm::INTERVAL - 2) || gap || back >= 2 || mtp_edge || h2_edge {
                        out.nontrivial(fnv(format!("{}-{}-{}-{}", chain_hash, ph, p.dt, now_offset).as_bytes()));
                    }
                }
            }
            Case11::Lookup { hist, probes } => {
                use crate::hist::World;
                use ic_btc_canister as can;
                let mut w = World::new(&hist.cfg);
                out.class("canister_header_store_lookup");
                let check_view = |w: &World, parent: usize, with_next: bool, extra_chain: &[Header], out: &mut Outcome, ctx: &str| {
                    let m = &w.model;
                    let mut chain: Vec<Header> = m.chain_to(parent).iter().map(|b| m.blocks[*b].block.header).collect();
                    chain.extend(extra_chain.iter().copied());
                    let prev = *chain.last().unwrap();
                    let cand = Header {
                        version: Version::from_consensus(0x2000_0000),
                        prev_blockhash: prev.block_hash(),
                        merkle_root: TxMerkleNode::all_zeros(),
                        time: prev.time + 1,
                        bits: prev.bits,
                        nonce: 12345,
                    };
                    out.checks += 1;
                    match crate::sut::guarded(|| can::with_state(|s| can::verif_header_store_view(s, &cand, with_next))) {
                        Err(p) => out.fail(format!("{ctx}: building the header store trapped: {p}")),
                        Ok(Err(e)) => out.fail(format!("{ctx}: a header whose parent is in the tree was refused a validation context: {:?}", e)),
                        Ok(Ok((height, by_height, by_hash))) => {
                            let want_h = chain.len() as u32 - 1;
                            if height != want_h {
                                out.fail(format!("{ctx}: the header store reports height {height} for the parent, it is at height {want_h}"));
                            }
                            for (h, want) in chain.iter().enumerate() {
                                if by_height.get(h).copied().flatten() != Some(*want) {
                                    out.fail(format!("{ctx}: header store lookup by height {h} (stable height {}, parent at {want_h}) does not return the chain's header at that height", m.anchor_height()));
                                    break;
                                }
                                if by_hash.get(h).copied().flatten() != Some(*want) {
                                    out.fail(format!("{ctx}: header store lookup by hash of the header at height {h} fails or returns another header"));
                                    break;
                                }
                            }
                            if by_height.get(chain.len()).copied().flatten().is_some() {
                                out.fail(format!("{ctx}: header store returns a header above the parent's height"));
                            }
                            if (want_h as usize) > 0 && m.anchor_height() > 0 && m.anchor_height() <= want_h {
                                out.nontrivial(fnv(format!("lk-{}-{}-{}-{}", m.anchor_height(), want_h, with_next, extra_chain.len()).as_bytes()));
                            }
                        }
                    }
                };
                for (i, op) in hist.ops.iter().enumerate() {
                    let info = w.apply(i, op);
                    if !info.errors.is_empty() {
                        out.fail(format!("step {i}: {:?}", info.errors));
                        return out;
                    }
                    let live: Vec<usize> = w.model.live.iter().copied().collect();
                    for p in probes {
                        let parent = live[crate::hist::pick(*p, live.len())];
                        check_view(&w, parent, false, &[], &mut out, &format!("step {i}"));
                        check_view(&w, parent, true, &[], &mut out, &format!("step {i} (announced-aware)"));
                    }
                    // refusals: a known child, and a parent outside the tree
                    let tip = w.model.best_tip();
                    if let Some(par) = w.model.blocks[tip].parent {
                        if w.model.live.contains(&par) {
                            let known = w.model.blocks[tip].block.header;
                            out.checks += 1;
                            match can::with_state(|s| can::verif_header_store_view(s, &known, false)) {
                                Err(can::ValidationContextError::AlreadyKnown(_)) => {}
                                other => out.fail(format!("step {i}: the header of a block already in the tree got {:?} instead of 'already known'", other.map(|x| x.0))),
                            }
                        }
                    }
                    let orphan = Header { prev_blockhash: BlockHash::from_byte_array([9u8; 32]), ..w.model.blocks[tip].block.header };
                    out.checks += 1;
                    if !matches!(can::with_state(|s| can::verif_header_store_view(s, &orphan, true)), Err(can::ValidationContextError::BlockDoesNotExtendTree(_))) {
                        out.fail(format!("step {i}: a header whose parent is unknown was given a validation context"));
                    }
                }
                // announced chain on top of the best tip (regtest with mined blocks only)
                if hist.cfg.validated {
                    let mut p = w.model.best_tip();
                    let base = p;
                    let mut blobs = vec![];
                    let mut extra = vec![];
                    for _ in 0..3 {
                        let (id, _, _) = w.mine_detached(p, &[(0, 1)], &[], None, 20);
                        let hd = w.model.blocks[id].block.header;
                        blobs.push(crate::hb::header_blob(&chain::serialize_header(&hd)));
                        extra.push(hd);
                        p = id;
                    }
                    if crate::sut::guarded(|| can::with_state_mut(|s| can::state::insert_next_block_headers(s, &blobs))).is_err() {
                        out.fail("announcing headers trapped".to_string());
                    }
                    check_view(&w, base, true, &extra, &mut out, "announced chain");
                    out.class("lookup_through_announced_headers");
                }
            }
            Case11::Regtest { len, dts, cand_dt, cand_bits, cand_mined, cand_unknown_parent, now_rel } => {
                let net = Net::Regtest;
                let g = chain::genesis(net).header;
                let mut headers = vec![g];
                for h in 1..=*len as usize {
                    let prev = headers[h - 1];
                    let mut hd = Header {
                        version: Version::from_consensus(0x2000_0000),
                        prev_blockhash: prev.block_hash(),
                        merkle_root: TxMerkleNode::all_zeros(),
                        time: prev.time + dts[h % dts.len()] as u32,
                        bits: CompactTarget::from_consensus(chain::REGTEST_BITS),
                        nonce: 0,
                    };
                    chain::mine_header(&mut hd);
                    headers.push(hd);
                }
                let by_hash = headers.iter().enumerate().map(|(i, h)| (h.block_hash(), i)).collect();
                let chain = Rc::new(Chain { headers, by_hash });
                let tip = *len as u32;
                let prev = chain.headers[tip as usize];
                let at = |h: u32| Hdr { bits: chain.headers[h as usize].bits.to_consensus(), time: chain.headers[h as usize].time };
                let ts = (prev.time as i64 + *cand_dt as i64).max(1) as u32;
                let bits = match cand_bits % 10 {
                    0 | 1 | 2 => chain::REGTEST_BITS,
                    3 => 0x207f_fffe,
                    4 => 0x2100_ffff, // above the maximum
                    5 => 0x1f7f_ffff,
                    6 => 0x607f_ffff, // exponent overflows 256 bits (wraps to the regtest maximum in rust-bitcoin)
                    7 => 0x217f_ffff, // partially overflowing
                    8 => 0x20ff_ffff, // negative mantissa
                    _ => 0x407f_ffff,
                };
                let mut cand = Header {
                    version: Version::from_consensus(0x2000_0000),
                    prev_blockhash: if *cand_unknown_parent { BlockHash::from_byte_array([7u8; 32]) } else { prev.block_hash() },
                    merkle_root: TxMerkleNode::all_zeros(),
                    time: ts,
                    bits: CompactTarget::from_consensus(bits),
                    nonce: 0,
                };
                let tgt = pm::from_compact(bits);
                let minable = cand.target() >= bitcoin::Target::from_compact(CompactTarget::from_consensus(0x1f7f_ffff));
                if *cand_mined && minable {
                    // find a nonce that meets the *declared* target
                    let t = cand.target();
                    for n in 0..2_000_000u32 {
                        cand.nonce = n;
                        if t.is_met_by(cand.block_hash()) {
                            break;
                        }
                    }
                } else {
                    // find a nonce that does NOT meet the declared target
                    let t = cand.target();
                    for n in 0..1000u32 {
                        cand.nonce = n;
                        if !t.is_met_by(cand.block_hash()) {
                            break;
                        }
                    }
                }
                let now = (prev.time as i64 + *now_rel as i64).max(0) as u64;
                let view = View { chain: chain.clone(), tip };
                let validator = HeaderValidator::new(view, net.btc());
                let mtp = pm::median_time_past(tip, &at);
                let required = pm::from_compact(pm::next_work_required(net, tip, ts, &at));
                let hash_ok = pm::biguint_from_be(&{
                    let mut b = cand.block_hash().to_byte_array();
                    b.reverse();
                    b
                }) <= tgt;
                let clauses = [
                    !*cand_unknown_parent,
                    ts > mtp && ts as u64 <= now + 7200,
                    pm::declared_target_ok(net, bits),
                    hash_ok,
                    tgt == required,
                ];
                let want = clauses.iter().all(|c| *c);
                out.checks += 1;
                match crate::sut::guarded(|| validator.validate_header(&cand, Duration::from_secs(now))) {
                    Err(e) => out.fail(format!("regtest validate_header trapped: {e}")),
                    Ok(r) => {
                        if pm::compact_flags(bits).1 {
                            out.class("overflowing_compact_target");
                        }
                        if r.is_ok() != want {
                            out.fail(format!(
                                "regtest candidate at height {} (dt {}, bits {:#x}, now-prev {}): implementation {:?}, the five clauses [parent, timestamp, max target, work, required target] = {:?}",
                                tip + 1, cand_dt, bits, now_rel, r, clauses
                            ));
                        }
                        if want {
                            out.class("regtest_accepted");
                        } else {
                            out.class("regtest_rejected");
                        }
                    }
                }
                let mtp_edge = (ts as i64 - mtp as i64).abs() <= 1;
                let h2_edge = (ts as i64 - (now as i64 + 7200)).abs() <= 1;
                if mtp_edge {
                    out.class("timestamp_on_mtp_edge");
                }
                if h2_edge {
                    out.class("timestamp_on_2h_edge");
                }
                if *cand_dt > 1200 {
                    out.class("gap_over_20_minutes");
                }
                let failing = clauses.iter().filter(|c| !**c).count();
                if failing <= 1 {
                    out.nontrivial(fnv(format!("rt-{}-{:?}-{}-{}-{}-{}", len, dts, cand_dt, bits, cand_mined, now_rel).as_bytes()));
                }
            }
        }
        out
    }
}
