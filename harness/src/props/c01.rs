//! C01 — UTXO answers are exactly the ledger state at the tip they name.
use super::common::*;
use crate::engine::{Outcome, Property, Tier};
use crate::hist::{history_brief, History, World};
use crate::sut::{self, Filter};
use proptest::prelude::*;

fn budgets() -> impl Strategy<Value = Vec<u16>> {
    prop_oneof![3 => Just(vec![]), 2 => prop::collection::vec(1u16..6, 1..4)]
}

pub struct C01;

#[derive(Clone, Debug, serde::Serialize, serde::Deserialize)]
pub struct Case01 {
    #[serde(flatten)]
    pub hist: History,
    /// Per-round budgets for time-sliced ingestion (empty = unsliced): queries are also asked at
    /// every pause point.
    #[serde(default)]
    pub budgets: Vec<u16>,
}

impl Property for C01 {
    type Case = Case01;
    fn id(&self) -> &'static str {
        "C01"
    }
    fn strategy(&self, tier: Tier) -> BoxedStrategy<Case01> {
        match tier {
            Tier::Quick => (crate::hist::history_strategy_big(24, 3, true, true, true), budgets()).prop_map(|(hist, budgets)| Case01 { hist, budgets }).boxed(),
            Tier::Thorough => (crate::hist::history_strategy_big(50, 4, true, true, true), budgets()).prop_map(|(hist, budgets)| Case01 { hist, budgets }).boxed(),
        }
    }
    fn cases(&self, tier: Tier) -> u32 {
        match tier {
            Tier::Quick => 40_000,
            Tier::Thorough => 400_000,
        }
    }
    fn rule(&self) -> String {
        "Generated histories (fork trees with arrival orders, per-block difficulties, transaction graphs over a small script pool incl. prefix-colliding bech32 address pairs, shared transactions, same-block spends, threshold changes, upgrades) on all three networks; after every operation (and, in 40% of the histories, after every paused round of a time-sliced ingestion with budgets of 1..5 operations, at every fourth pause right after an upgrade performed at that pause) every pool address is queried without filter through the real endpoint and through the page-size hook (all pages followed) and compared in both directions with a naive replay ledger as of the block the answer names as tip. A query is non-trivial when the expected set is non-empty and (the address has stable funds changed by unstable blocks, or the history has had a reorg / shared transaction / same-block spend, or a funded address whose text extends the queried one exists); distinct = distinct (tree shape, query result shape) hashes. Every second query of a segwit address is repeated in its all-upper-case bech32 spelling (BIP-173), which names the same address and must get the same answer.".into()
    }
    fn assumptions(&self) -> Vec<String> {
        vec![
            "rust-bitcoin's script->address text mapping is trusted (the canister uses the same call)".into(),
            "blocks are transaction-valid by construction; coinbases are unique".into(),
            "base58 prefix pairs are not generated (2^32 search); bech32(m) pairs are".into(),
            "order inside one height is unspecified and not compared".into(),
        ]
    }
    fn brief(&self, case: &Case01) -> serde_json::Value {
        serde_json::json!({"budgets": case.budgets, "history": history_brief(&case.hist)})
    }
    fn required_classes(&self, _tier: Tier) -> Vec<&'static str> {
        vec![
            "q_mixed_stable_unstable",
            "q_prefix_pair_funded",
            "step_reorg",
            "step_shared_tx",
            "step_same_block_spend",
            "step_anchor_advance",
            "step_upgrade",
            "net_mainnet",
            "net_testnet",
            "net_regtest",
            "driver_validated_mined",
            "q_multi_page",
            "q_while_ingestion_paused",
            "q_after_upgrade_while_ingestion_paused",
            "q_uppercase_bech32_spelling",
        ]
    }
    fn fuzz_sequences(&self) -> Vec<(&'static str, usize)> {
        vec![("/ops", 50)]
    }
    fn fuzz_admissible(&self, case: &Self::Case) -> bool {
        // blocks with more than a thousand outputs make every later query of the history
        // expensive: at most two per case (the generator draws one in ~180 operations)
        case.hist.ops.iter().filter(|o| matches!(o, crate::hist::Op::BigFund { .. })).count() <= 2
    }
    fn run(&self, case: &Case01) -> Outcome {
        let budgets = case.budgets.clone();
        let case = &case.hist;
        let mut out = Outcome::default();
        let mut w = World::new(&case.cfg);
        w.slice_budgets = budgets;
        history_classes(case, &mut out);
        let mut flags = (false, false, false);
        let addrs = w.distinct_addresses();
        for (i, op) in case.ops.iter().enumerate() {
            let mut pause_out = Outcome::default();
            let addrs_p = addrs.clone();
            let net = case.cfg.net;
            let info = w.apply_with(i, op, &mut |w2: &mut World, round: u32| {
                // a query asked while the stabilising block is only partially ingested
                pause_out.class("q_while_ingestion_paused");
                // ... at every fourth pause right after an upgrade at that very point
                if (i + round as usize) % 4 == 1 {
                    match sut::upgrade(None) {
                        Ok(()) => pause_out.class("q_after_upgrade_while_ingestion_paused"),
                        Err(p) => {
                            pause_out.fail(format!("step {i} paused round {round}: upgrade trapped: {p}"));
                            return;
                        }
                    }
                }
                for a in &addrs_p {
                    let ctx = format!("step {i} paused round {round} get_utxos({a})");
                    match sut::get_utxos_all_pages(net, a, &Filter::None, if round % 2 == 0 { None } else { Some(200 + (round as usize % 3)) }) {
                        Ok(Ok((ans, _))) => {
                            compare_utxos(w2, a, &ans, &mut pause_out, &ctx);
                        }
                        Ok(Err(e)) => pause_out.fail(format!("{ctx}: unexpected error {e}")),
                        Err(p) => pause_out.fail(format!("{ctx}: trapped: {p}")),
                    }
                }
            });
            out.checks += pause_out.checks;
            out.discs.extend(pause_out.discs);
            for (k, v) in pause_out.classes {
                out.class_n(k, v);
            }
            if step_errors(&info, &mut out) {
                return out;
            }
            step_classes(&w, &info, &mut out);
            flags.0 |= info.reorg;
            flags.1 |= info.shared_tx;
            flags.2 |= info.same_block_spend;
            for a in &addrs {
                let ctx = format!("step {i} get_utxos({a})");
                let real = match sut::get_utxos_all_pages(case.cfg.net, a, &Filter::None, None) {
                    Ok(Ok((ans, _))) => ans,
                    Ok(Err(e)) => {
                        out.fail(format!("{ctx}: unexpected error {e}"));
                        continue;
                    }
                    Err(p) => {
                        out.fail(format!("{ctx}: trapped: {p}"));
                        continue;
                    }
                };
                let tip = compare_utxos(&mut w, a, &real, &mut out, &ctx);
                // the same address in its other valid spelling (BIP-173: all upper case) is the
                // same address: same answer
                if is_bech32(a) && (i + a.len()) % 2 == 0 {
                    let upper = a.to_uppercase();
                    out.checks += 1;
                    match sut::get_utxos_all_pages(case.cfg.net, &upper, &Filter::None, None) {
                        Ok(Ok((ans, _))) => {
                            out.class("q_uppercase_bech32_spelling");
                            if ans.tip_hash != real.tip_hash || ans.utxos != real.utxos {
                                out.fail(format!("{ctx}: the upper-case spelling {upper} of the same address gets {} UTXOs (tip {}), the lower-case spelling {} (tip {})", ans.utxos.len(), hex::encode(&ans.tip_hash[..4.min(ans.tip_hash.len())]), real.utxos.len(), hex::encode(&real.tip_hash[..4.min(real.tip_hash.len())])));
                            }
                        }
                        Ok(Err(e)) => out.fail(format!("{ctx}: the upper-case spelling {upper} of the same address is refused: {e}")),
                        Err(p) => out.fail(format!("{ctx}: upper-case spelling trapped: {p}")),
                    }
                }
                // small page sizes for small sets; a few hundred for addresses that hold more
                // than the real page limit
                let limit = if real.utxos.len() > 60 { 250 + 250 * ((i + a.len()) % 3) } else { 1 + (i + a.len()) % 3 };
                match sut::get_utxos_all_pages(case.cfg.net, a, &Filter::None, Some(limit)) {
                    Ok(Ok((ans, pages))) => {
                        if pages > 1 {
                            out.class("q_multi_page");
                        }
                        compare_utxos(&mut w, a, &ans, &mut out, &format!("{ctx} [page size {limit}]"));
                        if ans.tip_hash != real.tip_hash {
                            out.fail(format!("{ctx}: paged and unpaged answers name different tips"));
                        }
                    }
                    Ok(Err(e)) => out.fail(format!("{ctx} [page size {limit}]: unexpected error {e}")),
                    Err(p) => out.fail(format!("{ctx} [page size {limit}]: trapped: {p}")),
                }
                if let Some(tip) = tip {
                    let expected = w.model.utxos_of(a, tip);
                    if expected.is_empty() {
                        continue;
                    }
                    let anchor = w.model.anchor;
                    let mixed = match w.model.blocks[anchor].parent {
                        Some(p) => {
                            let stable_side = w.model.utxos_of(a, p);
                            !stable_side.is_empty() && stable_side != expected
                        }
                        None => false,
                    };
                    let prefix_funded = addrs.iter().any(|b| {
                        b != a && b.starts_with(a.as_str()) && !w.model.utxos_of(b, tip).is_empty()
                    });
                    if mixed {
                        out.class("q_mixed_stable_unstable");
                    }
                    if prefix_funded {
                        out.class("q_prefix_pair_funded");
                    }
                    if mixed || prefix_funded || flags.0 || flags.1 || flags.2 {
                        let hs: Vec<u64> = expected.iter().map(|e| e.2 as u64).collect();
                        let mut extra = vec![expected.len() as u64, mixed as u64, prefix_funded as u64];
                        extra.extend(hs);
                        out.nontrivial(shape(&w, &extra));
                    }
                }
            }
        }
        out
    }
}

/// bech32 / bech32m address text (segwit): case-insensitive by BIP-173, unlike base58.
pub fn is_bech32(a: &str) -> bool {
    a.starts_with("bc1") || a.starts_with("tb1") || a.starts_with("bcrt1")
}
