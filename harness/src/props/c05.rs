//! C05 — Balance equals the sum of the UTXOs reported for the same request.
use super::common::*;
use crate::chain::Net;
use crate::engine::{Outcome, Property, Tier};
use crate::hist::{history_brief, history_strategy, History, World};
use crate::sut::{self, Filter};
use proptest::prelude::*;

fn budgets() -> impl Strategy<Value = Vec<u16>> {
    prop_oneof![3 => Just(vec![]), 2 => prop::collection::vec(1u16..6, 1..4)]
}

pub struct C05;

#[derive(Clone, Debug, serde::Serialize, serde::Deserialize)]
pub struct Case05 {
    #[serde(flatten)]
    pub hist: History,
    /// Per-round budgets for time-sliced ingestion (empty = unsliced); the relation is also
    /// checked at every pause point.
    #[serde(default)]
    pub budgets: Vec<u16>,
}

fn err_class(e: &str) -> &'static str {
    if e.contains("MalformedAddress") {
        "malformed"
    } else if e.contains("AddressForWrongNetwork") {
        "wrong_network"
    } else if e.contains("MinConfirmationsTooLarge") {
        "too_large"
    } else {
        "other"
    }
}

pub fn foreign_address(net: Net) -> &'static str {
    match net {
        Net::Mainnet => "bcrt1qg4cvn305es3k8j69x06t9hf4v5yx4mxdaeazl8",
        Net::Testnet => "bc1qar0srrr7xfkvy5l643lydnw9re59gtzzwf5mdq",
        Net::Regtest => "1A1zP1eP5QGefi2DMPTfTL5SLmv7DivfNa",
    }
}

pub fn check_balance_vs_utxos(w: &mut World, i: usize, a: &str, c: Option<u32>, out: &mut Outcome) -> Option<(u64, bool)> {
    let net = w.cfg.net;
    let f = match c {
        None => Filter::None,
        Some(c) => Filter::MinConf(c),
    };
    out.checks += 1;
    let u = sut::get_utxos_all_pages(net, a, &f, Some(2 + i % 3));
    let bq = sut::get_balance(net, a, c, false);
    let bu = sut::get_balance(net, a, c, true);
    let ctx = format!("step {i} address {a} min_confirmations {:?}", c);
    if bq != bu {
        out.fail(format!("{ctx}: get_balance_query {:?} differs from get_balance {:?}", bq, bu));
    }
    // query vs update for get_utxos (first page of the real endpoint)
    let uq = sut::get_utxos(net, a, &f, false);
    let uu = sut::get_utxos(net, a, &f, true);
    if uq != uu {
        out.fail(format!("{ctx}: get_utxos_query differs from get_utxos"));
    }
    match (u, bq) {
        (Err(p), _) => {
            out.fail(format!("{ctx}: get_utxos trapped: {p}"));
            None
        }
        (_, Err(p)) => {
            out.fail(format!("{ctx}: get_balance trapped: {p}"));
            None
        }
        (Ok(Ok((ans, _))), Ok(Ok(b))) => {
            let sum: u64 = ans.utxos.iter().map(|x| x.1).sum();
            if sum != b {
                out.fail(format!(
                    "{ctx}: get_balance = {b} but the UTXOs returned for the same request sum to {sum} (tip named {}@{})",
                    hx(&ans.tip_hash), ans.tip_height
                ));
            }
            Some((b, true))
        }
        (Ok(Err(eu)), Ok(Err(eb))) => {
            if err_class(&eu) != err_class(&eb) {
                out.fail(format!("{ctx}: get_utxos refuses with {eu} but get_balance with {eb}"));
            }
            Some((0, false))
        }
        (Ok(Ok(_)), Ok(Err(eb))) => {
            out.fail(format!("{ctx}: get_utxos answers but get_balance refuses with {eb}"));
            None
        }
        (Ok(Err(eu)), Ok(Ok(b))) => {
            out.fail(format!("{ctx}: get_balance answers {b} but get_utxos refuses with {eu}"));
            None
        }
    }
}

impl Property for C05 {
    type Case = Case05;
    fn id(&self) -> &'static str {
        "C05"
    }
    fn strategy(&self, tier: Tier) -> BoxedStrategy<Case05> {
        match tier {
            Tier::Quick => (history_strategy(20, 2, true, true), budgets()).prop_map(|(hist, budgets)| Case05 { hist, budgets }).boxed(),
            Tier::Thorough => (history_strategy(40, 3, true, true), budgets()).prop_map(|(hist, budgets)| Case05 { hist, budgets }).boxed(),
        }
    }
    fn cases(&self, tier: Tier) -> u32 {
        match tier {
            Tier::Quick => 25_000,
            Tier::Thorough => 250_000,
        }
    }
    fn rule(&self) -> String {
        "Metamorphic, no model: histories as in C01; after every operation for pool addresses, malformed strings and addresses of another network, and every c in {none, 0..=best-chain length+2}: get_balance(a,c) must equal the sum over all pages of get_utxos(a,c); both must refuse the same requests with the same error class; query variants equal update variants; the all-upper-case bech32 spelling of a segwit address is the same request as the lower-case one. Non-trivial: non-zero balance on a tree with >= 2 leaves, or c >= 2 with non-zero balance; distinct = (tree shape, c, balance) hashes. In 40% of the histories stabilising blocks are ingested in slices (budgets of 1..5 operations) and the relation is also checked after every paused round.".into()
    }
    fn brief(&self, case: &Case05) -> serde_json::Value {
        serde_json::json!({"budgets": case.budgets, "history": history_brief(&case.hist)})
    }
    fn required_classes(&self, _tier: Tier) -> Vec<&'static str> {
        vec!["nonzero_on_fork", "c_ge_2_nonzero", "both_refuse_too_large", "both_refuse_malformed", "both_refuse_wrong_network", "relation_checked_while_ingestion_paused", "uppercase_bech32_spelling"]
    }
    fn fuzz_sequences(&self) -> Vec<(&'static str, usize)> {
        vec![("/ops", 40)]
    }
    fn run(&self, case: &Case05) -> Outcome {
        let budgets = case.budgets.clone();
        let case = &case.hist;
        let mut out = Outcome::default();
        let mut w = World::new(&case.cfg);
        w.slice_budgets = budgets;
        history_classes(case, &mut out);
        let addrs = w.distinct_addresses();
        for (i, op) in case.ops.iter().enumerate() {
            let mut pause_out = Outcome::default();
            let addrs_p = addrs.clone();
            let info = w.apply_with(i, op, &mut |w2: &mut World, round: u32| {
                // while a block is being ingested in slices
                pause_out.class("relation_checked_while_ingestion_paused");
                let a = addrs_p[(i + round as usize) % addrs_p.len()].clone();
                let len = w2.model.best_chain().len() as u32;
                for c in [None, Some(0), Some(1), Some(2), Some(len), Some(len + 1)] {
                    check_balance_vs_utxos(w2, i, &a, c, &mut pause_out);
                }
            });
            out.checks += pause_out.checks;
            out.discs.extend(pause_out.discs);
            for (k, v) in pause_out.classes {
                out.class_n(k, v);
            }
            if step_errors(&info, &mut out) {
                return out;
            }
            step_classes(&w, &info, &mut out);
            let len = w.model.best_chain().len() as u32;
            let forked = w.model.leaves().len() >= 2;
            let a = addrs[i % addrs.len()].clone();
            let mut cs: Vec<Option<u32>> = vec![None];
            cs.extend((0..=len + 2).map(Some));
            for c in cs {
                if let Some((b, ok)) = check_balance_vs_utxos(&mut w, i, &a, c, &mut out) {
                    if !ok {
                        out.class("both_refuse_too_large");
                    }
                    if ok && b > 0 {
                        let cc = c.unwrap_or(0);
                        if forked {
                            out.class("nonzero_on_fork");
                        }
                        if cc >= 2 {
                            out.class("c_ge_2_nonzero");
                        }
                        if forked || cc >= 2 {
                            out.nontrivial(shape(&w, &[cc as u64, b]));
                        }
                    }
                }
            }
            // the same address in its all-upper-case bech32 spelling: the same request
            if super::c01::is_bech32(&a) && i % 2 == 1 {
                let lower = check_balance_vs_utxos(&mut w, i, &a, None, &mut out);
                let upper = check_balance_vs_utxos(&mut w, i, &a.to_uppercase(), None, &mut out);
                out.class("uppercase_bech32_spelling");
                if lower != upper {
                    out.fail(format!("step {i}: the upper-case spelling of {a} is answered with {:?}, the lower-case spelling with {:?} (balance, accepted)", upper, lower));
                }
            }
            // malformed and foreign addresses
            if i % 4 == 0 {
                let bad = ["", "not an address", "bc1qar0srrr7xfkvy5l643lydnw9re59gtzzwf5mdx", &a[..a.len() - 1]];
                for b in bad {
                    if check_balance_vs_utxos(&mut w, i, b, Some(1), &mut out).is_some() {
                        out.class("both_refuse_malformed");
                    }
                }
                if check_balance_vs_utxos(&mut w, i, foreign_address(case.cfg.net), None, &mut out).is_some() {
                    out.class("both_refuse_wrong_network");
                }
            }
        }
        out
    }
}
