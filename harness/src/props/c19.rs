//! C19 — send_transaction forwards exactly the well-formed transactions.
use crate::chain::{self, Net};
use crate::engine::{fnv, Outcome, Property, Tier};
use crate::sut::{self, SutConfig};
use bitcoin::hashes::Hash;
use ic_btc_canister as can;
use ic_btc_canister::runtime::verif_hooks as hooks;
use ic_btc_interface::{Flag, NetworkInRequest, SendTransactionRequest};
use proptest::prelude::*;
use serde::{Deserialize, Serialize};

pub struct C19;

#[derive(Clone, Debug, Serialize, Deserialize)]
pub struct TxShape {
    pub version: i32,
    pub n_in: u8,
    pub n_out: u8,
    /// Per input: number of witness items (0 = none); applied modulo.
    pub witness: Vec<u8>,
    pub script_len: u16,
    pub lock_time: u32,
    pub seed: u8,
}

#[derive(Clone, Debug, Serialize, Deserialize)]
pub enum Mutation {
    None,
    Truncate(u16),
    Extend(Vec<u8>),
    FlipBit(u32),
    /// Overwrite the byte at a (selector) position.
    SetByte(u16, u8),
    /// Insert marker+flag after the version of a legacy serialisation (no witness data).
    AddMarkerFlag(u8),
    /// Re-encode the compact size at position 4 (or 6) non-minimally.
    NonMinimalCount,
    /// Two concatenated transactions.
    Duplicate,
    /// Prefix bytes before the transaction.
    Prefix(Vec<u8>),
    Raw(Vec<u8>),
}

#[derive(Clone, Debug, Serialize, Deserialize)]
pub struct Case19 {
    pub net: Net,
    pub api_enabled: bool,
    /// 0..=5: the six spellings; which network they name is derived.
    pub req_net: u8,
    pub tx: TxShape,
    pub mutation: Mutation,
}

fn req_network(k: u8) -> (NetworkInRequest, Net) {
    match k % 6 {
        0 => (NetworkInRequest::Mainnet, Net::Mainnet),
        1 => (NetworkInRequest::mainnet, Net::Mainnet),
        2 => (NetworkInRequest::Testnet, Net::Testnet),
        3 => (NetworkInRequest::testnet, Net::Testnet),
        4 => (NetworkInRequest::Regtest, Net::Regtest),
        _ => (NetworkInRequest::regtest, Net::Regtest),
    }
}

pub fn build_tx(s: &TxShape) -> bitcoin::Transaction {
    use bitcoin::{absolute::LockTime, transaction, OutPoint, ScriptBuf, Sequence, Transaction, TxIn, Txid, Witness};
    let mut x = (s.seed as u32).wrapping_mul(2654435761u32).wrapping_add(12345);
    let mut next = || {
        x ^= x << 13;
        x ^= x >> 17;
        x ^= x << 5;
        x
    };
    let input = (0..s.n_in)
        .map(|i| {
            let mut id = [0u8; 32];
            for b in id.iter_mut() {
                *b = next() as u8;
            }
            let wn = if s.witness.is_empty() { 0 } else { s.witness[i as usize % s.witness.len()] % 4 };
            let mut w = Witness::new();
            for k in 0..wn {
                let l = (next() % 80) as usize + k as usize;
                w.push((0..l).map(|_| next() as u8).collect::<Vec<u8>>());
            }
            TxIn {
                previous_output: OutPoint { txid: Txid::from_byte_array(id), vout: next() % 4 },
                script_sig: ScriptBuf::from_bytes((0..(s.script_len as usize % 300)).map(|_| next() as u8).collect()),
                sequence: Sequence(next()),
                witness: w,
            }
        })
        .collect();
    let output = (0..s.n_out)
        .map(|k| chain::txout((next() as u64) * 1000, ScriptBuf::from_bytes((0..((s.script_len as usize + k as usize * 7) % 260)).map(|_| next() as u8).collect())))
        .collect();
    Transaction { version: transaction::Version(s.version), lock_time: LockTime::from_consensus(s.lock_time), input, output }
}

// ---- strict, hand-written parser of the consensus serialisation ----------------------------
struct Cur<'a> {
    b: &'a [u8],
    p: usize,
}
impl<'a> Cur<'a> {
    fn take(&mut self, n: usize) -> Option<&'a [u8]> {
        if self.b.len() - self.p < n {
            return None;
        }
        let s = &self.b[self.p..self.p + n];
        self.p += n;
        Some(s)
    }
    fn u8(&mut self) -> Option<u8> {
        self.take(1).map(|s| s[0])
    }
    /// Canonical compact size.
    fn compact(&mut self) -> Option<u64> {
        let f = self.u8()?;
        match f {
            0..=0xfc => Some(f as u64),
            0xfd => {
                let s = self.take(2)?;
                let v = u16::from_le_bytes([s[0], s[1]]) as u64;
                if v < 0xfd {
                    None
                } else {
                    Some(v)
                }
            }
            0xfe => {
                let s = self.take(4)?;
                let v = u32::from_le_bytes([s[0], s[1], s[2], s[3]]) as u64;
                if v <= 0xffff {
                    None
                } else {
                    Some(v)
                }
            }
            0xff => {
                let s = self.take(8)?;
                let v = u64::from_le_bytes(s.try_into().unwrap());
                if v <= 0xffff_ffff {
                    None
                } else {
                    Some(v)
                }
            }
        }
    }
    fn var_bytes(&mut self) -> Option<()> {
        let n = self.compact()?;
        if n > self.b.len() as u64 {
            return None;
        }
        self.take(n as usize).map(|_| ())
    }
    fn inputs(&mut self) -> Option<u64> {
        let n = self.compact()?;
        if n > self.b.len() as u64 {
            return None;
        }
        for _ in 0..n {
            self.take(36)?;
            self.var_bytes()?;
            self.take(4)?;
        }
        Some(n)
    }
    fn outputs(&mut self) -> Option<u64> {
        let n = self.compact()?;
        if n > self.b.len() as u64 {
            return None;
        }
        for _ in 0..n {
            self.take(8)?;
            self.var_bytes()?;
        }
        Some(n)
    }
}

/// True iff `b` is exactly the consensus serialisation of one transaction: canonical compact
/// sizes, BIP144 marker/flag only when witness data is present (or there are no inputs), no
/// superfluous witness section, nothing after the lock time.
pub fn is_exact_transaction(b: &[u8]) -> bool {
    let mut c = Cur { b, p: 0 };
    (|| -> Option<bool> {
        c.take(4)?;
        let save = c.p;
        let first = c.u8()?;
        if first == 0 {
            // marker: flag must be 1
            if c.u8()? != 1 {
                return Some(false);
            }
            let n_in = c.inputs()?;
            c.outputs()?;
            let mut any_witness = false;
            for _ in 0..n_in {
                let items = c.compact()?;
                if items > b.len() as u64 {
                    return Some(false);
                }
                if items > 0 {
                    any_witness = true;
                }
                for _ in 0..items {
                    c.var_bytes()?;
                }
            }
            if n_in > 0 && !any_witness {
                return Some(false);
            }
        } else {
            c.p = save;
            let n_in = c.inputs()?;
            if n_in == 0 {
                return Some(false);
            }
            c.outputs()?;
        }
        c.take(4)?;
        Some(c.p == b.len())
    })()
    .unwrap_or(false)
}

pub fn apply_mutation(ser: &[u8], m: &Mutation) -> Vec<u8> {
    let mut v = ser.to_vec();
    match m {
        Mutation::None => {}
        Mutation::Truncate(sel) => {
            let keep = crate::hist::pick(*sel, v.len().max(1));
            v.truncate(keep);
        }
        Mutation::Extend(x) => v.extend(x.iter()),
        Mutation::FlipBit(k) => {
            if !v.is_empty() {
                let bit = (*k as usize) % (v.len() * 8);
                v[bit / 8] ^= 1 << (bit % 8);
            }
        }
        Mutation::SetByte(sel, val) => {
            if !v.is_empty() {
                let p = crate::hist::pick(*sel, v.len());
                v[p] = *val;
            }
        }
        Mutation::AddMarkerFlag(flag) => {
            if v.len() > 4 {
                v.insert(4, 0);
                v.insert(5, *flag);
            }
        }
        Mutation::NonMinimalCount => {
            if v.len() > 5 {
                let pos = if v[4] == 0 { 6 } else { 4 };
                if pos < v.len() && v[pos] < 0xfd {
                    let c = v[pos];
                    v.splice(pos..pos + 1, [0xfd, c, 0]);
                }
            }
        }
        Mutation::Duplicate => {
            let c = v.clone();
            v.extend(c);
        }
        Mutation::Prefix(x) => {
            let mut n = x.clone();
            n.extend(v);
            v = n;
        }
        Mutation::Raw(x) => v = x.clone(),
    }
    v
}

impl Property for C19 {
    type Case = Case19;
    fn id(&self) -> &'static str {
        "C19"
    }
    fn strategy(&self, _tier: Tier) -> BoxedStrategy<Case19> {
        let tx = (
            prop_oneof![Just(1i32), Just(2i32), any::<i32>()],
            prop_oneof![1 => Just(0u8), 8 => 1u8..4, 1 => 4u8..40],
            prop_oneof![1 => Just(0u8), 8 => 1u8..4, 1 => 4u8..40],
            prop::collection::vec(0u8..4, 0..4),
            prop_oneof![4 => 0u16..80, 1 => 250u16..300],
            any::<u32>(),
            any::<u8>(),
        )
            .prop_map(|(version, n_in, n_out, witness, script_len, lock_time, seed)| TxShape { version, n_in, n_out, witness, script_len, lock_time, seed });
        let mutation = prop_oneof![
            6 => Just(Mutation::None),
            4 => any::<u16>().prop_map(Mutation::Truncate),
            5 => prop::collection::vec(any::<u8>(), 1..9).prop_map(Mutation::Extend),
            4 => any::<u32>().prop_map(Mutation::FlipBit),
            3 => (any::<u16>(), any::<u8>()).prop_map(|(a, b)| Mutation::SetByte(a, b)),
            2 => prop_oneof![Just(1u8), Just(0u8), Just(2u8)].prop_map(Mutation::AddMarkerFlag),
            2 => Just(Mutation::NonMinimalCount),
            1 => Just(Mutation::Duplicate),
            1 => prop::collection::vec(any::<u8>(), 1..5).prop_map(Mutation::Prefix),
            1 => prop::collection::vec(any::<u8>(), 0..120).prop_map(Mutation::Raw),
        ];
        (
            prop_oneof![Just(Net::Mainnet), Just(Net::Testnet), Just(Net::Regtest)],
            prop_oneof![9 => Just(true), 1 => Just(false)],
            prop_oneof![6 => Just(255u8), 1 => 0u8..6],
            tx,
            mutation,
        )
            .prop_map(|(net, api_enabled, rn, tx, mutation)| {
                // 255 = name the canister's own network (random spelling derived from the seed)
                let req_net = if rn == 255 {
                    match net {
                        Net::Mainnet => tx.seed % 2,
                        Net::Testnet => 2 + tx.seed % 2,
                        Net::Regtest => 4 + tx.seed % 2,
                    }
                } else {
                    rn
                };
                Case19 { net, api_enabled, req_net, tx, mutation }
            })
            .boxed()
    }
    fn cases(&self, tier: Tier) -> u32 {
        match tier {
            Tier::Quick => 1_000_000,
            Tier::Thorough => 10_000_000,
        }
    }
    fn raw_target(&self) -> Option<(&'static str, fn(&[u8]) -> Outcome)> {
        Some(("send_tx", fuzz_payload))
    }
    fn rule(&self) -> String {
        "Serialisations of generated transactions (legacy and segwit, 0..40 inputs/outputs, arbitrary versions, witness stacks) each unchanged, truncated at any length, extended by 1..8 bytes, bit-flipped, byte-overwritten, with marker/flag inserted (flags 0,1,2), with a non-minimal compact size, duplicated, prefixed, or replaced by raw bytes; all three networks x six network spellings x API flag. Oracle: a hand-written strict parser of the consensus format decides acceptance; accepted => Ok, send_transaction_count +1 and the recorder holds exactly (network, payload); otherwise MalformedTransaction (or a refusal for flag/network) with recorder and counter unchanged; secondary oracle: accepted => re-encoding the library-decoded transaction reproduces the payload. Non-trivial: a mutated payload (within a few bytes of a valid serialisation); distinct = payload hashes.".into()
    }
    fn assumptions(&self) -> Vec<String> {
        vec!["payloads are far below rust-bitcoin's 4 MB allocation guard".into()]
    }
    fn required_classes(&self, _tier: Tier) -> Vec<&'static str> {
        vec!["accepted_valid", "rejected_malformed", "refused_api_disabled", "refused_wrong_network", "valid_plus_trailing_bytes", "zero_input_tx", "segwit_tx", "mutated_still_valid", "canister_not_synced"]
    }
    fn run(&self, case: &Case19) -> Outcome {
        let mut out = Outcome::default();
        let mut sc = SutConfig::new(case.net, 2);
        sc.api_access = if case.api_enabled { Flag::Enabled } else { Flag::Disabled };
        // The sync gate is on in every other case; on regtest (the only network whose headers
        // can be mined here) every fourth case additionally puts the canister in the not-synced
        // state (three announced headers above the tip): the statement makes acceptance depend
        // on the access flag, the network and the payload only.
        if case.tx.seed % 2 == 0 {
            sc.sync_gate = Flag::Enabled;
        }
        sut::reset(&sc);
        if case.net == Net::Regtest && case.tx.seed % 4 == 0 {
            thread_local! {
                static AHEAD: Vec<ic_btc_canister::types::BlockHeaderBlob> = {
                    let net = Net::Regtest;
                    let g = crate::chain::genesis(net);
                    let mut prev = g.header;
                    let mut v = vec![];
                    for k in 0..3u32 {
                        let cb = crate::chain::coinbase_tx(k + 1, 990_000 + k as u64, vec![crate::chain::txout(1, bitcoin::ScriptBuf::new())]);
                        let b = crate::chain::build_block(net, prev.block_hash(), prev.time + 600, vec![cb], true);
                        v.push(crate::hb::header_blob(&crate::chain::serialize_header(&b.header)));
                        prev = b.header;
                    }
                    v
                };
            }
            let stored = AHEAD.with(|blobs| {
                sut::guarded(|| {
                    can::with_state_mut(|s| {
                        can::state::insert_next_block_headers(s, blobs);
                        s.unstable_blocks.verif_bookkeeping().next_headers.len()
                    })
                })
            });
            match stored {
                Ok(3) => out.class("canister_not_synced"),
                other => {
                    out.fail(format!("harness self-check: announcing three headers stored {:?}", other));
                    return out;
                }
            }
        }
        let tx = build_tx(&case.tx);
        let ser = bitcoin::consensus::serialize(&tx);
        if !is_exact_transaction(&ser) {
            out.fail("harness self-check: strict parser rejects an encoder output".to_string());
            return out;
        }
        let payload = apply_mutation(&ser, &case.mutation);
        let (rn, names) = req_network(case.req_net);
        let valid = is_exact_transaction(&payload);
        let count_before = can::with_state(|s| s.metrics.send_transaction_count);
        hooks::take_sent_transactions();
        out.checks += 1;
        let r = sut::guarded(|| {
            futures::executor::block_on(can::send_transaction(SendTransactionRequest { network: rn, transaction: payload.clone() }))
        });
        let count_after = can::with_state(|s| s.metrics.send_transaction_count);
        let sent = hooks::take_sent_transactions();
        let expect_refusal = !case.api_enabled || names != case.net;
        if tx.input.is_empty() {
            out.class("zero_input_tx");
        }
        if tx.input.iter().any(|i| !i.witness.is_empty()) {
            out.class("segwit_tx");
        }
        let desc = format!("{:?} on {:?} (api {}), request names {:?}, payload {} bytes", case.mutation, case.net, case.api_enabled, names, payload.len());
        if expect_refusal {
            out.class(if !case.api_enabled { "refused_api_disabled" } else { "refused_wrong_network" });
            if r.is_ok() {
                out.fail(format!("{desc}: the call was not refused"));
            }
            if !sent.is_empty() || count_after != count_before {
                out.fail(format!("{desc}: a refused call forwarded or counted something"));
            }
        } else {
            match r {
                Err(p) => out.fail(format!("{desc}: trapped: {p}")),
                Ok(Ok(())) => {
                    if !valid {
                        let trailing = (1..payload.len()).any(|k| is_exact_transaction(&payload[..k]));
                        out.fail(format!(
                            "{desc}: accepted and forwarded a payload that is not exactly one serialised transaction{} (hex {})",
                            if trailing { " (a valid transaction followed by extra bytes)" } else { "" },
                            hex::encode(&payload[..payload.len().min(120)])
                        ));
                    } else {
                        out.class("accepted_valid");
                        if !matches!(case.mutation, Mutation::None) {
                            out.class("mutated_still_valid");
                        }
                    }
                    if count_after != count_before + 1 {
                        out.fail(format!("{desc}: accepted but the counter moved by {}", count_after - count_before));
                    }
                    if sent.len() != 1 || sent[0].transaction != payload || sent[0].network != case.net.ic() {
                        out.fail(format!("{desc}: accepted but the forwarded request is not exactly (network, payload)"));
                    }
                    if valid {
                        // secondary round-trip oracle
                        match bitcoin::consensus::deserialize::<bitcoin::Transaction>(&payload) {
                            Ok(t) => {
                                if bitcoin::consensus::serialize(&t) != payload {
                                    out.fail(format!("{desc}: accepted payload does not round-trip"));
                                }
                            }
                            Err(_) => out.fail(format!("{desc}: strict parser accepts but the library decoder rejects (oracle disagreement)")),
                        }
                    }
                }
                Ok(Err(e)) => {
                    out.class("rejected_malformed");
                    if valid {
                        out.fail(format!("{desc}: a well-formed transaction was refused with {:?}", e));
                    }
                    if !sent.is_empty() || count_after != count_before {
                        out.fail(format!("{desc}: a rejected payload was forwarded or counted"));
                    }
                }
            }
        }
        if !valid && (1..payload.len()).any(|k| is_exact_transaction(&payload[..k])) {
            out.class("valid_plus_trailing_bytes");
        }
        if !matches!(case.mutation, Mutation::None | Mutation::Raw(_)) {
            out.nontrivial(fnv(&payload));
        }
        out
    }
}

/// Raw entry point for the byte-level fuzz target: byte 0 selects network / flag / spelling,
/// the rest is the payload.
pub fn fuzz_payload(data: &[u8]) -> Outcome {
    let mut out = Outcome::default();
    if data.is_empty() {
        return out;
    }
    let sel = data[0];
    let net = [Net::Mainnet, Net::Testnet, Net::Regtest][(sel % 3) as usize];
    let api_enabled = sel & 0x80 == 0;
    let req_net = if sel & 0x40 == 0 {
        match net {
            Net::Mainnet => 0,
            Net::Testnet => 2,
            Net::Regtest => 4,
        }
    } else {
        (sel >> 3) % 6
    };
    let payload = data[1..].to_vec();
    // send_transaction changes nothing but a counter: the canister is re-initialised only when
    // the (network, flag) selection changes
    thread_local! {
        static CURRENT: std::cell::RefCell<Option<(Net, bool)>> = const { std::cell::RefCell::new(None) };
    }
    let need_reset = CURRENT.with(|c| *c.borrow() != Some((net, api_enabled)));
    if need_reset {
        let mut sc = SutConfig::new(net, 2);
        sc.api_access = if api_enabled { Flag::Enabled } else { Flag::Disabled };
        sut::reset(&sc);
        CURRENT.with(|c| *c.borrow_mut() = Some((net, api_enabled)));
    }
    let (rn, names) = req_network(req_net);
    let valid = is_exact_transaction(&payload);
    let count_before = can::with_state(|s| s.metrics.send_transaction_count);
    hooks::take_sent_transactions();
    out.checks += 1;
    let r = sut::guarded(|| futures::executor::block_on(can::send_transaction(SendTransactionRequest { network: rn, transaction: payload.clone() })));
    let count_after = can::with_state(|s| s.metrics.send_transaction_count);
    let sent = hooks::take_sent_transactions();
    let expect_refusal = !api_enabled || names != net;
    let desc = format!("fuzz payload {} on {:?} (api {}), request names {:?}", hex::encode(&payload[..payload.len().min(200)]), net, api_enabled, names);
    if expect_refusal {
        if r.is_ok() || !sent.is_empty() || count_after != count_before {
            out.fail(format!("{desc}: a call that must be refused was not refused without effect"));
        }
        return out;
    }
    match r {
        Err(p) => out.fail(format!("{desc}: trapped: {p}")),
        Ok(Ok(())) => {
            if !valid {
                out.fail(format!("{desc}: accepted a payload that is not exactly one serialised transaction"));
            }
            if count_after != count_before + 1 || sent.len() != 1 || sent[0].transaction != payload || sent[0].network != net.ic() {
                out.fail(format!("{desc}: accepted but not counted once and forwarded unchanged"));
            }
            if valid {
                match bitcoin::consensus::deserialize::<bitcoin::Transaction>(&payload) {
                    Ok(t) if bitcoin::consensus::serialize(&t) == payload => {}
                    _ => out.fail(format!("{desc}: accepted payload does not round-trip")),
                }
            }
        }
        Ok(Err(_)) => {
            if valid {
                out.fail(format!("{desc}: a well-formed transaction was refused"));
            }
            if !sent.is_empty() || count_after != count_before {
                out.fail(format!("{desc}: a rejected payload was forwarded or counted"));
            }
        }
    }
    out
}
