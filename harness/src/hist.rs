//! Histories: configuration + operation sequences, their proptest strategies, and the `World`
//! that interprets them against the real canister and the reference model side by side.
use crate::chain::{self, address_of, Net, ScriptSpec};
use crate::model::{txid32, AdvanceJudgement, Model, OutPt, Utx, H32};
use crate::sut::{self, SutConfig};
use bitcoin::hashes::Hash;
use bitcoin::{OutPoint, ScriptBuf, Transaction, Txid};
use proptest::prelude::*;
use serde::{Deserialize, Serialize};
use std::collections::BTreeMap;

#[derive(Clone, Copy, Debug, PartialEq, Eq, Serialize, Deserialize)]
pub enum DiffMode {
    One,
    Const(u8),
    Random,
    Heavy,
}

#[derive(Clone, Debug, Serialize, Deserialize)]
pub struct Cfg {
    pub net: Net,
    pub threshold: u8,
    pub pool: Vec<ScriptSpec>,
    pub diff_mode: DiffMode,
    /// Regtest only: blocks are mined and go through `state::insert_block` (full validation).
    pub validated: bool,
}

#[derive(Clone, Copy, Debug, PartialEq, Eq, Serialize, Deserialize)]
pub enum ParentSel {
    BestTip,
    Tip(u16),
    Any(u16),
}

#[derive(Clone, Debug, Serialize, Deserialize)]
pub struct TxSpec {
    pub inputs: Vec<u16>,
    /// (pool index, weight); weight 0 = zero-value output.
    pub outs: Vec<(u8, u16)>,
    pub fee_permille: u16,
    pub witness: Option<u8>,
}

#[derive(Clone, Debug, Serialize, Deserialize)]
pub enum Op {
    Extend {
        parent: ParentSel,
        coinbase: Vec<(u8, u16)>,
        txs: Vec<TxSpec>,
        diff: u8,
        dt: u16,
        reuse: Option<u16>,
    },
    SetThreshold(u8),
    Upgrade,
    /// A block on the best tip whose coinbase pays `n` outputs to pool script `script`: gives one
    /// address more UTXOs than the real page limit of 1000.
    BigFund { script: u8, n: u16, diff: u8 },
}

#[derive(Clone, Debug, Serialize, Deserialize)]
pub struct History {
    pub cfg: Cfg,
    pub ops: Vec<Op>,
}

/// Monotone index mapping (shrink friendly).
pub fn pick(sel: u16, len: usize) -> usize {
    debug_assert!(len > 0);
    ((sel as usize) * len) >> 16
}

// ---------------------------------------------------------------------------------------------
// Strategies
// ---------------------------------------------------------------------------------------------

pub fn script_spec_strategy() -> impl Strategy<Value = ScriptSpec> {
    let seg_base = prop_oneof![
        (0u8..4).prop_map(ScriptSpec::P2tr),
        (0u8..4).prop_map(ScriptSpec::P2wpkh),
    ];
    prop_oneof![
        4 => (0u8..3).prop_map(ScriptSpec::P2pkh),
        2 => (0u8..3).prop_map(ScriptSpec::P2sh),
        3 => (0u8..4).prop_map(ScriptSpec::P2wpkh),
        2 => (0u8..3).prop_map(ScriptSpec::P2wsh),
        3 => (0u8..4).prop_map(ScriptSpec::P2tr),
        2 => (1u8..=16, 2u8..=40, 0u8..3).prop_map(|(ver, len, seed)| ScriptSpec::Wit { ver, len, seed }),
        3 => (seg_base, 0u8..4).prop_map(|(b, ext)| ScriptSpec::PrefixOf { base: Box::new(b), ext }),
        1 => (0u8..40).prop_map(ScriptSpec::OpReturn),
        1 => Just(ScriptSpec::Empty),
        1 => (0u8..3).prop_map(ScriptSpec::BarePk),
        1 => (0u8..3).prop_map(ScriptSpec::Multisig),
        1 => (26u16..=201, 0u8..3).prop_map(|(len, seed)| ScriptSpec::Junk { len, seed }),
        1 => (202u16..600, 0u8..3).prop_map(|(len, seed)| ScriptSpec::Junk { len, seed }),
    ]
}

/// A pool of 4..=8 scripts. When a `PrefixOf` is drawn its base is added too, so that prefix
/// pairs are both present.
pub fn pool_strategy() -> impl Strategy<Value = Vec<ScriptSpec>> {
    prop::collection::vec(script_spec_strategy(), 3..=6).prop_map(|mut v| {
        let mut extra = vec![];
        for s in &v {
            if let ScriptSpec::PrefixOf { base, .. } = s {
                extra.push((**base).clone());
            }
        }
        v.extend(extra);
        v.dedup();
        v.truncate(8);
        let has_address = v.iter().any(|s| {
            !matches!(
                s,
                ScriptSpec::OpReturn(_)
                    | ScriptSpec::Empty
                    | ScriptSpec::BarePk(_)
                    | ScriptSpec::Multisig(_)
                    | ScriptSpec::Junk { .. }
            )
        });
        if !has_address {
            v.push(ScriptSpec::P2pkh(0));
        }
        v
    })
}

pub fn tx_spec_strategy() -> impl Strategy<Value = TxSpec> {
    (
        prop::collection::vec(any::<u16>(), 1..=3),
        prop::collection::vec((0u8..8, prop_oneof![1 => Just(0u16), 6 => 1u16..1000]), 0..=4),
        prop_oneof![2 => Just(0u16), 5 => 0u16..300, 1 => Just(1000u16)],
        prop_oneof![1 => Just(None), 1 => (0u8..255).prop_map(Some)],
    )
        .prop_map(|(inputs, outs, fee_permille, witness)| TxSpec {
            inputs,
            outs,
            fee_permille,
            witness,
        })
}

pub fn parent_strategy() -> impl Strategy<Value = ParentSel> {
    prop_oneof![
        12 => Just(ParentSel::BestTip),
        5 => any::<u16>().prop_map(ParentSel::Tip),
        3 => any::<u16>().prop_map(ParentSel::Any),
    ]
}

pub fn extend_strategy(max_txs: usize) -> impl Strategy<Value = Op> {
    (
        parent_strategy(),
        prop::collection::vec((0u8..8, prop_oneof![1 => Just(0u16), 8 => 1u16..1000]), 1..=3),
        prop::collection::vec(tx_spec_strategy(), 0..=max_txs),
        any::<u8>(),
        prop_oneof![6 => 1u16..600, 1 => 1200u16..4000],
        prop_oneof![8 => Just(None), 2 => any::<u16>().prop_map(Some)],
    )
        .prop_map(|(parent, coinbase, txs, diff, dt, reuse)| Op::Extend {
            parent,
            coinbase,
            txs,
            diff,
            dt,
            reuse,
        })
}

pub fn op_strategy(max_txs: usize, with_upgrade: bool, with_threshold: bool, with_big: bool) -> BoxedStrategy<Op> {
    let mut v: Vec<(u32, BoxedStrategy<Op>)> = vec![(160, extend_strategy(max_txs).boxed())];
    if with_threshold {
        v.push((8, (1u8..=6).prop_map(Op::SetThreshold).boxed()));
    }
    if with_upgrade {
        v.push((8, Just(Op::Upgrade).boxed()));
    }
    if with_big {
        v.push((1, (0u8..8, 1001u16..2300, any::<u8>()).prop_map(|(script, n, diff)| Op::BigFund { script, n, diff }).boxed()));
    }
    proptest::strategy::Union::new_weighted(v).boxed()
}

pub fn diff_mode_strategy() -> impl Strategy<Value = DiffMode> {
    prop_oneof![
        3 => Just(DiffMode::One),
        1 => (2u8..10).prop_map(DiffMode::Const),
        3 => Just(DiffMode::Random),
        3 => Just(DiffMode::Heavy),
    ]
}

pub fn cfg_strategy() -> impl Strategy<Value = Cfg> {
    (
        prop_oneof![Just(Net::Mainnet), Just(Net::Testnet), Just(Net::Regtest)],
        prop_oneof![6 => 1u8..=3, 3 => 4u8..=6, 1 => 7u8..=12],
        pool_strategy(),
        diff_mode_strategy(),
        any::<bool>(),
    )
        .prop_map(|(net, threshold, pool, diff_mode, validated)| Cfg {
            net,
            threshold,
            pool,
            diff_mode,
            validated: validated && net == Net::Regtest,
        })
}

pub fn history_strategy(
    max_ops: usize,
    max_txs: usize,
    with_upgrade: bool,
    with_threshold: bool,
) -> impl Strategy<Value = History> {
    history_strategy_big(max_ops, max_txs, with_upgrade, with_threshold, false)
}

/// `with_big`: occasionally include a block that gives one address more UTXOs than the real
/// page limit of 1000.
pub fn history_strategy_big(
    max_ops: usize,
    max_txs: usize,
    with_upgrade: bool,
    with_threshold: bool,
    with_big: bool,
) -> impl Strategy<Value = History> {
    (
        cfg_strategy(),
        prop::collection::vec(op_strategy(max_txs, with_upgrade, with_threshold, with_big), 1..=max_ops),
    )
        .prop_map(|(cfg, ops)| History { cfg, ops })
}

// ---------------------------------------------------------------------------------------------
// World
// ---------------------------------------------------------------------------------------------

#[derive(Clone, Debug, Default)]
pub struct StepInfo {
    pub op_index: usize,
    pub new_block: Option<usize>,
    pub pre_anchor: usize,
    pub pre_best_tip: usize,
    pub pre_live: Vec<usize>,
    pub advances: Vec<AdvanceJudgement>,
    pub demanded_left: Option<usize>,
    /// Problems that any property would consider a failure of the run (unexpected panic, valid
    /// block rejected, anchor not a descendant of the previous anchor, ...).
    pub errors: Vec<String>,
    pub live_set_matches: bool,
    pub upgraded: bool,
    pub shared_tx: bool,
    pub same_block_spend: bool,
    pub reorg: bool,
}

pub struct World {
    pub cfg: Cfg,
    pub model: Model,
    pub scripts: Vec<ScriptBuf>,
    pub addrs: Vec<Option<String>>,
    coinbase_nonce: u64,
    pub steps: usize,
    pub sut_cfg: SutConfig,
    /// Per-round operation budgets for time-sliced ingestion (cycled); empty = unsliced.
    pub slice_budgets: Vec<u16>,
    slice_pos: usize,
    /// Statistics of the last settle: (rounds, paused rounds).
    pub last_rounds: (u32, u32),
    /// How often a block contained a transaction shared with another fork together with a
    /// spender of one of its outputs.
    pub shared_tx_spent_in_block: u64,
}

pub type PauseObserver<'a> = &'a mut dyn FnMut(&mut World, u32);

fn to_outpoint(k: &OutPt) -> OutPoint {
    OutPoint {
        txid: Txid::from_byte_array(k.0),
        vout: k.1,
    }
}

impl World {
    pub fn new(cfg: &Cfg) -> Self {
        Self::new_with(cfg, SutConfig::new(cfg.net, cfg.threshold as u32))
    }

    pub fn new_with(cfg: &Cfg, sut_cfg: SutConfig) -> Self {
        sut::reset(&sut_cfg);
        let scripts: Vec<ScriptBuf> = cfg.pool.iter().map(|s| s.script(cfg.net)).collect();
        let addrs = scripts.iter().map(|s| address_of(s, cfg.net)).collect();
        World {
            cfg: cfg.clone(),
            model: Model::new(cfg.net, sut_cfg.threshold),
            scripts,
            addrs,
            coinbase_nonce: 0,
            steps: 0,
            sut_cfg,
            slice_budgets: vec![],
            slice_pos: 0,
            last_rounds: (0, 0),
            shared_tx_spent_in_block: 0,
        }
    }

    pub fn distinct_addresses(&self) -> Vec<String> {
        let mut v: Vec<String> = self.addrs.iter().flatten().cloned().collect();
        v.sort();
        v.dedup();
        v
    }

    fn difficulty(&self, byte: u8) -> u128 {
        match self.cfg.diff_mode {
            DiffMode::One => 1,
            DiffMode::Const(d) => d as u128,
            DiffMode::Random => 1 + (byte % 20) as u128,
            DiffMode::Heavy => {
                if byte < 190 {
                    1
                } else {
                    5 + (byte % 20) as u128
                }
            }
        }
    }

    pub fn resolve_parent(&self, sel: ParentSel) -> usize {
        match sel {
            ParentSel::BestTip => self.model.best_tip(),
            ParentSel::Tip(i) => {
                let leaves = self.model.leaves();
                leaves[pick(i, leaves.len())]
            }
            ParentSel::Any(i) => {
                let live: Vec<usize> = self.model.live.iter().copied().collect();
                live[pick(i, live.len())]
            }
        }
    }

    fn script_for(&self, idx: u8) -> ScriptBuf {
        self.scripts[(idx as usize) % self.scripts.len()].clone()
    }

    /// Builds the transactions of a block on top of `parent`.
    #[allow(clippy::type_complexity)]
    fn build_body(
        &mut self,
        parent: usize,
        coinbase: &[(u8, u16)],
        txs: &[TxSpec],
        reuse: Option<u16>,
    ) -> (Vec<Transaction>, bool, bool) {
        let height = self.model.blocks[parent].height + 1;
        self.coinbase_nonce += 1;
        let cb_outs = coinbase
            .iter()
            .map(|(s, w)| chain::txout(*w as u64 * 1_000, self.script_for(*s)))
            .collect();
        let mut body = vec![chain::coinbase_tx(height, self.coinbase_nonce, cb_outs)];

        let ledger = self.model.ledger_at(parent);
        let mut spendable: BTreeMap<OutPt, Utx> = ledger
            .iter()
            .filter(|(_, u)| !bitcoin::Script::from_bytes(&u.script).is_op_return())
            .map(|(k, u)| (*k, u.clone()))
            .collect();
        let mut created_here: std::collections::BTreeSet<OutPt> = Default::default();
        let mut same_block_spend = false;
        // outputs of this block's coinbase are spendable by later transactions in the block
        let cb_txid = txid32(&body[0]);
        for (i, o) in body[0].output.iter().enumerate() {
            if !o.script_pubkey.is_op_return() {
                spendable.insert(
                    (cb_txid, i as u32),
                    Utx {
                        value: o.value.to_sat(),
                        script: o.script_pubkey.to_bytes(),
                        height,
                    },
                );
                created_here.insert((cb_txid, i as u32));
            }
        }

        // Re-include a transaction that is already confirmed in a live block of another fork,
        // if it is still valid on this chain. It goes right after the coinbase, so that the
        // transactions generated below may spend its outputs in the same block.
        let mut shared = false;
        let mut shared_outputs: Vec<OutPt> = vec![];
        if let Some(sel) = reuse {
            let on_chain: std::collections::BTreeSet<usize> =
                self.model.chain_to(parent).into_iter().collect();
            let mut candidates: Vec<Transaction> = vec![];
            for b in self.model.live.iter() {
                if on_chain.contains(b) {
                    continue;
                }
                for tx in self.model.blocks[*b].block.txdata.iter().skip(1) {
                    let ok = tx.input.iter().all(|i| {
                        let k = (i.previous_output.txid.to_byte_array(), i.previous_output.vout);
                        spendable.contains_key(&k) && !created_here.contains(&k)
                    });
                    let dup = candidates.iter().any(|t| txid32(t) == txid32(tx));
                    if ok && !dup && !tx.input.is_empty() {
                        candidates.push(tx.clone());
                    }
                }
            }
            if !candidates.is_empty() {
                let tx = candidates[pick(sel, candidates.len())].clone();
                for i in &tx.input {
                    spendable.remove(&(i.previous_output.txid.to_byte_array(), i.previous_output.vout));
                }
                let txid = txid32(&tx);
                for (i, o) in tx.output.iter().enumerate() {
                    if !o.script_pubkey.is_op_return() {
                        spendable.insert(
                            (txid, i as u32),
                            Utx { value: o.value.to_sat(), script: o.script_pubkey.to_bytes(), height },
                        );
                        created_here.insert((txid, i as u32));
                    }
                }
                shared_outputs = (0..tx.output.len()).map(|i| (txid, i as u32)).collect();
                body.push(tx);
                shared = true;
            }
        }

        for spec in txs {
            if spendable.is_empty() {
                break;
            }
            let mut ins: Vec<(OutPt, Utx)> = vec![];
            for sel in &spec.inputs {
                if spendable.is_empty() {
                    break;
                }
                let keys: Vec<OutPt> = spendable.keys().copied().collect();
                let k = keys[pick(*sel, keys.len())];
                let u = spendable.remove(&k).unwrap();
                ins.push((k, u));
            }
            if ins.is_empty() {
                continue;
            }
            let total_in: u64 = ins.iter().map(|(_, u)| u.value).sum();
            let fee = (total_in as u128 * spec.fee_permille.min(1000) as u128 / 1000) as u64;
            let budget = total_in - fee;
            let wsum: u64 = spec.outs.iter().map(|(_, w)| *w as u64).sum();
            let outs: Vec<bitcoin::TxOut> = spec
                .outs
                .iter()
                .map(|(s, w)| {
                    let v = if wsum == 0 {
                        0
                    } else {
                        (budget as u128 * *w as u128 / wsum as u128) as u64
                    };
                    chain::txout(v, self.script_for(*s))
                })
                .collect();
            let inputs: Vec<OutPoint> = ins.iter().map(|(k, _)| to_outpoint(k)).collect();
            if ins.iter().any(|(k, _)| created_here.contains(k)) {
                same_block_spend = true;
            }
            if ins.iter().any(|(k, _)| shared_outputs.contains(k)) {
                self.shared_tx_spent_in_block += 1;
            }
            let tx = chain::spend_tx(&inputs, outs, spec.witness, 2);
            let txid = txid32(&tx);
            for (i, o) in tx.output.iter().enumerate() {
                if !o.script_pubkey.is_op_return() {
                    spendable.insert(
                        (txid, i as u32),
                        Utx {
                            value: o.value.to_sat(),
                            script: o.script_pubkey.to_bytes(),
                            height,
                        },
                    );
                    created_here.insert((txid, i as u32));
                }
            }
            body.push(tx);
        }

        (body, shared, same_block_spend)
    }

    /// Builds (and on regtest mines) a block on `parent` and registers it in the model as
    /// existing but not admitted. Returns its id.
    #[allow(clippy::too_many_arguments)]
    pub fn mine_detached(
        &mut self,
        parent: usize,
        coinbase: &[(u8, u16)],
        txs: &[TxSpec],
        reuse: Option<u16>,
        dt: u16,
    ) -> (usize, bool, bool) {
        let (body, shared, sbs) = self.build_body(parent, coinbase, txs, reuse);
        let prev = self.model.blocks[parent].block.block_hash();
        let time = self.model.blocks[parent].block.header.time + (dt as u32).max(1);
        let block = chain::build_block(self.cfg.net, prev, time, body, true);
        let id = self.model.add_block_detached(parent, block, 1);
        (id, shared, sbs)
    }

    /// Pushes an already built block to the canister the way this history's driver does.
    pub fn push_to_sut(&self, block: &bitcoin::Block, diff: u128) -> Result<(), String> {
        let r = if self.cfg.validated {
            sut::insert_validated(block, Some(diff))
        } else {
            sut::push_unvalidated(block, Some(diff))
        };
        match r {
            Ok(Ok(())) => Ok(()),
            Ok(Err(e)) => Err(format!("valid block rejected: {}", e)),
            Err(p) => Err(format!("panic while inserting a valid block: {}", p)),
        }
    }

    /// Brings the model's anchor in line with the canister's, judging every advance.
    pub fn sync_anchor(&mut self, info: &mut StepInfo) {
        let tree = sut::tree_hashes();
        let sut_anchor = match self.model.id_of(&tree[0]) {
            Some(id) => id,
            None => {
                info.errors
                    .push("canister anchor is a block the model has never seen".into());
                return;
            }
        };
        if !self.model.is_ancestor_or_self(self.model.anchor, sut_anchor)
            || !self.model.live.contains(&sut_anchor)
        {
            info.errors.push(format!(
                "canister anchor (height {}) is not a live descendant of the previous anchor (height {})",
                self.model.blocks[sut_anchor].height,
                self.model.anchor_height()
            ));
            return;
        }
        let path = self.model.chain_to(sut_anchor);
        let from = path.iter().position(|b| *b == self.model.anchor).unwrap();
        for child in &path[from + 1..] {
            let j = self.model.judge_child(*child);
            info.advances.push(j);
            self.model.advance_to(*child);
        }
        info.demanded_left = self.model.demanded_child();
        let mut sut_set: Vec<H32> = tree;
        sut_set.sort();
        let mut model_set: Vec<H32> = self
            .model
            .live
            .iter()
            .map(|b| self.model.blocks[*b].hash)
            .collect();
        model_set.sort();
        info.live_set_matches = sut_set == model_set;
        if sut::stable_height() != self.model.anchor_height() {
            info.errors.push(format!(
                "stable height {} differs from the anchor's height {}",
                sut::stable_height(),
                self.model.anchor_height()
            ));
        }
    }

    fn begin(&mut self, i: usize) -> StepInfo {
        StepInfo {
            op_index: i,
            pre_anchor: self.model.anchor,
            pre_best_tip: self.model.best_tip(),
            pre_live: self.model.live.iter().copied().collect(),
            live_set_matches: true,
            ..Default::default()
        }
    }

    /// Runs ingestion to completion and syncs the anchor. With `slice_budgets` set, every round
    /// performs exactly k input/output operations before it pauses; `on_pause` is called after
    /// every paused round.
    pub fn settle(&mut self, info: &mut StepInfo, on_pause: PauseObserver) {
        use ic_btc_canister::runtime::verif_hooks as hooks;
        let mut rounds = 0u32;
        let mut paused = 0u32;
        loop {
            hooks::performance_counter_reset();
            if self.slice_budgets.is_empty() {
                hooks::set_performance_counter_step(0);
            } else {
                let mut k = self.slice_budgets[self.slice_pos % self.slice_budgets.len()].max(1) as u64;
                self.slice_pos += 1;
                // very large blocks: after a dozen small rounds the budget doubles every round,
                // so that a block with thousands of operations does not need thousands of rounds
                if rounds > 12 {
                    k = k.saturating_mul(1u64 << (rounds - 12).min(20));
                }
                hooks::set_performance_counter_step(1_000_000_000u64.div_ceil(k + 1));
            }
            rounds += 1;
            let r = sut::ingest_round();
            hooks::set_performance_counter_step(0);
            hooks::performance_counter_reset();
            match r {
                Ok(sut::IngestResult::Paused) => {
                    paused += 1;
                    if self.slice_budgets.is_empty() {
                        info.errors.push(
                            "ingestion paused although the instruction counter does not advance"
                                .into(),
                        );
                        break;
                    }
                    on_pause(self, paused);
                    if rounds > 100_000 {
                        info.errors.push("ingestion did not finish after 100000 rounds".into());
                        break;
                    }
                }
                Ok(_) => break,
                Err(p) => {
                    info.errors.push(format!("panic during ingestion: {}", p));
                    break;
                }
            }
        }
        self.last_rounds = (rounds, paused);
        self.sync_anchor(info);
    }

    pub fn apply(&mut self, i: usize, op: &Op) -> StepInfo {
        self.apply_with(i, op, &mut |_, _| {})
    }

    pub fn apply_with(&mut self, i: usize, op: &Op, on_pause: PauseObserver) -> StepInfo {
        let mut info = self.begin(i);
        self.steps += 1;
        match op {
            Op::Extend {
                parent,
                coinbase,
                txs,
                diff,
                dt,
                reuse,
            } => {
                let p = self.resolve_parent(*parent);
                let (body, shared, sbs) = self.build_body(p, coinbase, txs, *reuse);
                info.shared_tx = shared;
                info.same_block_spend = sbs;
                let d = self.difficulty(*diff);
                let prev = self.model.blocks[p].block.block_hash();
                let time = self.model.blocks[p].block.header.time + (*dt as u32).max(1);
                let block = chain::build_block(self.cfg.net, prev, time, body, self.cfg.validated);
                if let Err(e) = self.push_to_sut(&block, d) {
                    info.errors.push(e);
                    return info;
                }
                let id = self.model.add_block(p, block, d);
                info.new_block = Some(id);
                self.settle(&mut info, on_pause);
                let new_best = self.model.best_tip();
                info.reorg = !self.model.is_ancestor_or_self(info.pre_best_tip, new_best)
                    && self.model.live.contains(&info.pre_best_tip);
            }
            Op::BigFund { script, n, diff } => {
                let p = self.model.best_tip();
                let height = self.model.blocks[p].height + 1;
                self.coinbase_nonce += 1;
                let sc = self.script_for(*script);
                let outs = (0..*n).map(|k| chain::txout(1 + (k as u64 % 7), sc.clone())).collect();
                let body = vec![chain::coinbase_tx(height, self.coinbase_nonce, outs)];
                let d = self.difficulty(*diff);
                let prev = self.model.blocks[p].block.block_hash();
                let time = self.model.blocks[p].block.header.time + 60;
                let block = chain::build_block(self.cfg.net, prev, time, body, self.cfg.validated);
                if let Err(e) = self.push_to_sut(&block, d) {
                    info.errors.push(e);
                    return info;
                }
                let id = self.model.add_block(p, block, d);
                info.new_block = Some(id);
                self.settle(&mut info, on_pause);
            }
            Op::SetThreshold(t) => {
                sut::set_threshold(*t as u32);
                self.model.threshold = *t as u32;
                self.settle(&mut info, on_pause);
            }
            Op::Upgrade => {
                info.upgraded = true;
                if let Err(p) = sut::upgrade(None) {
                    info.errors.push(format!("panic during upgrade: {}", p));
                    return info;
                }
                self.sync_anchor(&mut info);
            }
        }
        info
    }
}

pub fn op_brief(op: &Op) -> String {
    match op {
        Op::Extend {
            parent,
            coinbase,
            txs,
            diff,
            dt,
            reuse,
        } => format!(
            "Extend(parent={:?}, cb_outs={}, txs={}, diff_byte={}, dt={}, reuse={:?})",
            parent,
            coinbase.len(),
            txs.len(),
            diff,
            dt,
            reuse
        ),
        Op::SetThreshold(t) => format!("SetThreshold({})", t),
        Op::Upgrade => "Upgrade".into(),
        Op::BigFund { script, n, diff } => format!("BigFund(script={}, outputs={}, diff_byte={})", script, n, diff),
    }
}

pub fn history_brief(h: &History) -> serde_json::Value {
    serde_json::json!({
        "net": format!("{:?}", h.cfg.net),
        "threshold": h.cfg.threshold,
        "diff_mode": format!("{:?}", h.cfg.diff_mode),
        "validated": h.cfg.validated,
        "pool": h.cfg.pool.iter().map(|s| format!("{:?}", s)).collect::<Vec<_>>(),
        "ops": h.ops.iter().map(op_brief).collect::<Vec<_>>(),
    })
}

// ---------------------------------------------------------------------------------------------
// Exhaustive small fork trees
// ---------------------------------------------------------------------------------------------

/// Selector value that makes `pick(sel, len)` return `k`.
pub fn sel_for(k: usize, len: usize) -> u16 {
    (((k as u32) * 65536).div_ceil(len as u32)).min(65535) as u16
}

/// Every (rooted tree with n non-genesis nodes, arrival order) pair -- encoded as a parent
/// vector with parent[i] in 0..=i -- times every difficulty vector over {1,2,3}, as histories
/// on the given network with a threshold that is never reached (nothing stabilises, so the
/// whole tree stays unstable) or a small one.
pub fn exhaustive_trees(n: usize, net: Net, threshold: u8) -> Vec<History> {
    let mut out = vec![];
    let mut parents = vec![0usize; n];
    loop {
        let mut diffs = vec![0u8; n];
        loop {
            let ops: Vec<Op> = (0..n)
                .map(|i| Op::Extend {
                    // live blocks are ids 0..=i in creation order when nothing stabilises; with a
                    // small threshold the candidate list shrinks and the selector simply maps
                    // onto what is left (still a valid history)
                    parent: ParentSel::Any(sel_for(parents[i], i + 1)),
                    coinbase: vec![(0, 1)],
                    txs: vec![],
                    diff: diffs[i],
                    dt: 1,
                    reuse: None,
                })
                .collect();
            out.push(History {
                cfg: Cfg { net, threshold, pool: vec![ScriptSpec::P2pkh(0)], diff_mode: DiffMode::Random, validated: false },
                ops,
            });
            // next difficulty vector
            let mut k = 0;
            while k < n {
                diffs[k] += 1;
                if diffs[k] < 3 {
                    break;
                }
                diffs[k] = 0;
                k += 1;
            }
            if k == n {
                break;
            }
        }
        // next parent vector
        let mut k = 0;
        while k < n {
            parents[k] += 1;
            if parents[k] <= k {
                break;
            }
            parents[k] = 0;
            k += 1;
        }
        if k == n {
            break;
        }
    }
    out
}

/// Sampled counterpart of `exhaustive_trees` for sizes the quick tier cannot enumerate: a uniform
/// parent vector (parent[i] in 0..=i, i.e. a uniform (shape, arrival order) pair) with n
/// non-genesis blocks and difficulties uniform over {1,2,3}, so that exact ties on accumulated
/// difficulty between branches of different length and nested lighter-but-longer side branches
/// are frequent. Nothing stabilises (the threshold is never reached).
pub fn small_difficulty_tree_strategy(nmin: usize, nmax: usize, threshold: u8) -> BoxedStrategy<History> {
    (
        prop_oneof![Just(Net::Mainnet), Just(Net::Testnet), Just(Net::Regtest)],
        prop::collection::vec((any::<u16>(), 0u8..3), nmin..=nmax),
    )
        .prop_map(move |(net, nodes)| {
            let ops: Vec<Op> = nodes
                .iter()
                .enumerate()
                .map(|(i, (sel, d))| Op::Extend {
                    parent: ParentSel::Any(sel_for(((*sel as usize) * (i + 1)) >> 16, i + 1)),
                    coinbase: vec![(0, 1)],
                    txs: vec![],
                    diff: *d,
                    dt: 1,
                    reuse: None,
                })
                .collect();
            History { cfg: Cfg { net, threshold, pool: vec![ScriptSpec::P2pkh(0)], diff_mode: DiffMode::Random, validated: false }, ops }
        })
        .boxed()
}

/// Constructed fork trees for the tie-break rules: two branches A and B below a common block with
/// *equal* accumulated difficulty (the last block of the lighter one is topped up) and lengths
/// 1..3 each, plus a side branch of 1..4 difficulty-1 blocks below the fork point or an inner
/// block of A or B (usually lighter but longer than the rest of that spine), in one of three
/// arrival orders. Nothing stabilises (the threshold is never reached).
pub fn tie_side_branch_strategy(threshold: u8) -> BoxedStrategy<History> {
    (
        prop_oneof![Just(Net::Mainnet), Just(Net::Testnet), Just(Net::Regtest)],
        0usize..=2,
        prop::collection::vec(3u8..=5, 1..=3),
        prop::collection::vec(3u8..=5, 1..=3),
        any::<bool>(),
        any::<u8>(),
        1usize..=4,
        0u8..3,
    )
        .prop_map(move |(net, prefix, mut a, mut b, side_on_a, k, ls, order)| {
            let (sa, sb): (u32, u32) = (a.iter().map(|x| *x as u32).sum(), b.iter().map(|x| *x as u32).sum());
            if sa < sb {
                *a.last_mut().unwrap() += (sb - sa) as u8;
            } else {
                *b.last_mut().unwrap() += (sa - sb) as u8;
            }
            // symbolic nodes: (name, parent name, difficulty); names: P<i>, A<i>, B<i>, S<i>, "G"
            let mut groups: Vec<Vec<(String, String, u8)>> = vec![];
            let mut pre = vec![];
            let mut last = "G".to_string();
            for i in 0..prefix {
                pre.push((format!("P{i}"), last.clone(), 2u8));
                last = format!("P{i}");
            }
            let fork = last.clone();
            let spine = |tag: &str, d: &Vec<u8>| -> Vec<(String, String, u8)> {
                let mut v = vec![];
                let mut l = fork.clone();
                for (i, x) in d.iter().enumerate() {
                    v.push((format!("{tag}{i}"), l.clone(), *x));
                    l = format!("{tag}{i}");
                }
                v
            };
            let ga = spine("A", &a);
            let gb = spine("B", &b);
            let host = if side_on_a { &a } else { &b };
            let kk = k as usize % host.len(); // 0 = fork point, i = below the i-th spine block (never the spine tip)
            let mut l = if kk == 0 { fork.clone() } else { format!("{}{}", if side_on_a { "A" } else { "B" }, kk - 1) };
            let mut gs = vec![];
            for i in 0..ls {
                gs.push((format!("S{i}"), l.clone(), 1u8));
                l = format!("S{i}");
            }
            groups.push(pre);
            match (order, side_on_a) {
                (0, _) => {
                    groups.push(ga);
                    groups.push(gb);
                    groups.push(gs);
                }
                (1, _) => {
                    groups.push(gb);
                    groups.push(ga);
                    groups.push(gs);
                }
                (_, true) => {
                    groups.push(ga);
                    groups.push(gs);
                    groups.push(gb);
                }
                (_, false) => {
                    groups.push(gb);
                    groups.push(gs);
                    groups.push(ga);
                }
            }
            let mut index: std::collections::BTreeMap<String, usize> = Default::default();
            index.insert("G".to_string(), 0);
            let mut ops = vec![];
            for (name, parent, d) in groups.into_iter().flatten() {
                let n = index.len();
                ops.push(Op::Extend { parent: ParentSel::Any(sel_for(index[&parent], n)), coinbase: vec![(0, 1)], txs: vec![], diff: d - 1, dt: 1, reuse: None });
                index.insert(name, n);
            }
            History { cfg: Cfg { net, threshold, pool: vec![ScriptSpec::P2pkh(0)], diff_mode: DiffMode::Random, validated: false }, ops }
        })
        .boxed()
}
