//! Reference model: deliberately naive, written from the property statements and the interface
//! specification, not from the implementation.
use crate::chain::{address_of, genesis, hash32, Net};
use bitcoin::hashes::Hash;
use bitcoin::Block;
use std::collections::{BTreeMap, BTreeSet, HashMap};
use std::rc::Rc;

pub type H32 = [u8; 32];
pub type OutPt = (H32, u32);

#[derive(Clone, Debug, PartialEq, Eq)]
pub struct Utx {
    pub value: u64,
    pub script: Vec<u8>,
    pub height: u32,
}

pub type Ledger = BTreeMap<OutPt, Utx>;

pub struct MBlock {
    pub id: usize,
    pub hash: H32,
    pub parent: Option<usize>,
    pub height: u32,
    pub block: Block,
    pub diff: u128,
    /// Children in arrival order (all ever added, live or not).
    pub children: Vec<usize>,
    ledger: Option<Rc<Ledger>>,
}

pub struct Model {
    pub net: Net,
    pub threshold: u32,
    pub blocks: Vec<MBlock>,
    pub by_hash: HashMap<H32, usize>,
    pub anchor: usize,
    pub live: BTreeSet<usize>,
    addr_cache: std::cell::RefCell<HashMap<Vec<u8>, Option<String>>>,
}

#[derive(Clone, Debug, Default)]
pub struct AdvanceJudgement {
    pub child: usize,
    pub rule1: bool,
    pub rule2_impl_reading: bool,
    pub rule2_natural_reading: bool,
    pub on_best_chain: bool,
    pub siblings: usize,
    pub half_rule1_only: bool,
}

pub fn txid32(tx: &bitcoin::Transaction) -> H32 {
    tx.compute_txid().to_byte_array()
}

impl Model {
    pub fn new(net: Net, threshold: u32) -> Self {
        let g = genesis(net);
        let hash = hash32(&g.block_hash());
        let mut by_hash = HashMap::new();
        by_hash.insert(hash, 0);
        let mut live = BTreeSet::new();
        live.insert(0);
        Model {
            net,
            threshold,
            blocks: vec![MBlock {
                id: 0,
                hash,
                parent: None,
                height: 0,
                block: g,
                diff: 1,
                children: vec![],
                ledger: None,
            }],
            by_hash,
            anchor: 0,
            live,
            addr_cache: Default::default(),
        }
    }

    /// Address text of a script (memoised; rust-bitcoin is the trusted base for this mapping).
    pub fn addr_of_script(&self, script: &[u8]) -> Option<String> {
        if let Some(a) = self.addr_cache.borrow().get(script) {
            return a.clone();
        }
        let a = address_of(bitcoin::Script::from_bytes(script), self.net);
        self.addr_cache.borrow_mut().insert(script.to_vec(), a.clone());
        a
    }

    pub fn add_block(&mut self, parent: usize, block: Block, diff: u128) -> usize {
        let id = self.blocks.len();
        let hash = hash32(&block.block_hash());
        let height = self.blocks[parent].height + 1;
        self.blocks.push(MBlock {
            id,
            hash,
            parent: Some(parent),
            height,
            block,
            diff,
            children: vec![],
            ledger: None,
        });
        self.blocks[parent].children.push(id);
        self.by_hash.insert(hash, id);
        if self.live.contains(&parent) {
            self.live.insert(id);
        }
        id
    }

    /// Registers a block that exists (was built) but is not (yet) part of the canister's view.
    pub fn add_block_detached(&mut self, parent: usize, block: Block, diff: u128) -> usize {
        let id = self.add_block(parent, block, diff);
        self.live.remove(&id);
        id
    }

    /// Marks a detached block as admitted. Returns false if its parent is not live.
    pub fn admit(&mut self, id: usize) -> bool {
        match self.blocks[id].parent {
            Some(p) if self.live.contains(&p) => {
                self.live.insert(id);
                // children are kept in arrival (admission) order
                self.blocks[p].children.retain(|c| *c != id);
                self.blocks[p].children.push(id);
                true
            }
            _ => false,
        }
    }

    pub fn id_of(&self, hash: &H32) -> Option<usize> {
        self.by_hash.get(hash).copied()
    }

    pub fn anchor_height(&self) -> u32 {
        self.blocks[self.anchor].height
    }

    /// genesis..=id
    pub fn chain_to(&self, id: usize) -> Vec<usize> {
        let mut v = vec![id];
        let mut cur = id;
        while let Some(p) = self.blocks[cur].parent {
            v.push(p);
            cur = p;
        }
        v.reverse();
        v
    }

    pub fn is_ancestor_or_self(&self, anc: usize, id: usize) -> bool {
        let mut cur = Some(id);
        while let Some(c) = cur {
            if c == anc {
                return true;
            }
            cur = self.blocks[c].parent;
        }
        false
    }

    pub fn live_children(&self, id: usize) -> Vec<usize> {
        self.blocks[id]
            .children
            .iter()
            .copied()
            .filter(|c| self.live.contains(c))
            .collect()
    }

    /// All paths from `root` down to a live leaf (each starts with `root`).
    pub fn leaf_paths(&self, root: usize) -> Vec<Vec<usize>> {
        let mut out = vec![];
        let mut stack = vec![vec![root]];
        while let Some(path) = stack.pop() {
            let last = *path.last().unwrap();
            let kids = self.live_children(last);
            if kids.is_empty() {
                out.push(path);
            } else {
                for k in kids {
                    let mut p = path.clone();
                    p.push(k);
                    stack.push(p);
                }
            }
        }
        out
    }

    pub fn leaves(&self) -> Vec<usize> {
        self.live
            .iter()
            .copied()
            .filter(|b| self.live_children(*b).is_empty())
            .collect()
    }

    fn arrival_signature(&self, path: &[usize]) -> Vec<usize> {
        path.windows(2)
            .map(|w| {
                self.live_children(w[0])
                    .iter()
                    .position(|c| *c == w[1])
                    .unwrap()
            })
            .collect()
    }

    /// Best chain from `root`: maximum accumulated difficulty, then more blocks, then received
    /// first at the first divergence.
    pub fn best_chain_from(&self, root: usize) -> Vec<usize> {
        let mut best: Option<(u128, usize, Vec<usize>, Vec<usize>)> = None;
        for p in self.leaf_paths(root) {
            let d: u128 = p.iter().map(|b| self.blocks[*b].diff).sum();
            let sig = self.arrival_signature(&p);
            let better = match &best {
                None => true,
                Some((bd, bl, bsig, _)) => {
                    (d, p.len()) > (*bd, *bl) || ((d, p.len()) == (*bd, *bl) && sig < *bsig)
                }
            };
            if better {
                best = Some((d, p.len(), sig, p));
            }
        }
        best.unwrap().3
    }

    pub fn best_chain(&self) -> Vec<usize> {
        self.best_chain_from(self.anchor)
    }

    pub fn best_tip(&self) -> usize {
        *self.best_chain().last().unwrap()
    }

    /// True iff the best chain is decided without needing the arrival-order tie-break.
    pub fn best_chain_is_tie_free(&self) -> bool {
        let paths = self.leaf_paths(self.anchor);
        let keys: Vec<(u128, usize)> = paths
            .iter()
            .map(|p| (p.iter().map(|b| self.blocks[*b].diff).sum(), p.len()))
            .collect();
        let max = keys.iter().max().unwrap();
        keys.iter().filter(|k| *k == max).count() == 1
    }

    /// Maximum accumulated difficulty over leaf paths starting at `root` (root included).
    pub fn dd(&self, root: usize) -> u128 {
        self.leaf_paths(root)
            .iter()
            .map(|p| p.iter().map(|b| self.blocks[*b].diff).sum())
            .max()
            .unwrap()
    }

    /// Longest path length from `b` downwards, `b` included.
    pub fn depth(&self, b: usize) -> u32 {
        self.leaf_paths(b).iter().map(|p| p.len()).max().unwrap() as u32
    }

    /// The documented adaptive bound for testnet/regtest.
    pub fn depth_bound(&self) -> (u64, u64) {
        let n = self.live.len() as f64;
        let t = (self.threshold.min(499)) as f64;
        let x = 500.0 - (n.min(1500.0) / 1500.0) * (500.0 - t);
        // `.5` rounding band: return both floor(x+0.5) and ceil(x-0.5).
        let up = (x + 0.5).floor() as u64;
        let down = (x - 0.5).ceil() as u64;
        (down.min(up), down.max(up))
    }

    pub fn judge_child(&self, child: usize) -> AdvanceJudgement {
        let anchor = self.anchor;
        let kids = self.live_children(anchor);
        let bar = self.threshold as u128 * self.blocks[anchor].diff;
        let d = self.dd(child);
        let others: Vec<usize> = kids.iter().copied().filter(|k| *k != child).collect();
        let lead_ok = others.iter().all(|s| d >= self.dd(*s) && d - self.dd(*s) >= bar);
        let rule1 = d >= bar && lead_ok;
        let half = (d >= bar) != lead_ok;

        let mut r2a = false;
        let mut r2b = false;
        if self.net != Net::Mainnet {
            let (lo, hi) = self.depth_bound();
            let l = self.depth(child) as u64;
            // natural reading: longest by at least the bound over every sibling
            let max_other = others.iter().map(|s| self.depth(*s) as u64).max().unwrap_or(0);
            r2b = l >= hi && l >= max_other && l - max_other >= hi;
            // implementation's reading: child has the top difficulty-depth; runner-up is the
            // second by difficulty-depth.
            let top = others.iter().all(|s| d >= self.dd(*s));
            if top {
                let second = others.iter().copied().max_by_key(|s| self.dd(*s));
                let sl = second.map(|s| self.depth(s) as u64).unwrap_or(0);
                // accept with the lower bound of the rounding band
                r2a = l >= lo && l.saturating_sub(sl) >= lo;
                // if several siblings tie for second place by difficulty the implementation's
                // choice of runner-up depends on sort order: accept if any of them justifies.
                let sd = second.map(|s| self.dd(s));
                for s in others.iter().filter(|s| Some(self.dd(**s)) == sd) {
                    let sl = self.depth(*s) as u64;
                    if l >= lo && l.saturating_sub(sl) >= lo {
                        r2a = true;
                    }
                }
            }
        }
        let best = self.best_chain();
        AdvanceJudgement {
            child,
            rule1,
            rule2_impl_reading: r2a,
            rule2_natural_reading: r2b,
            on_best_chain: best.get(1) == Some(&child),
            siblings: others.len(),
            half_rule1_only: half,
        }
    }

    /// A child whose advance is demanded under every reading of the rule.
    pub fn demanded_child(&self) -> Option<usize> {
        for c in self.live_children(self.anchor) {
            let j = self.judge_child(c);
            if j.rule1 {
                return Some(c);
            }
            if self.net != Net::Mainnet {
                // demanded only if justified under both readings, with the upper rounding bound
                let (_, hi) = self.depth_bound();
                let l = self.depth(c) as u64;
                let others: Vec<usize> = self
                    .live_children(self.anchor)
                    .into_iter()
                    .filter(|k| *k != c)
                    .collect();
                let d = self.dd(c);
                let strictly_top = others.iter().all(|s| d > self.dd(*s));
                let max_other = others.iter().map(|s| self.depth(*s) as u64).max().unwrap_or(0);
                if strictly_top && l >= hi && l >= max_other && l - max_other >= hi {
                    return Some(c);
                }
            }
        }
        None
    }

    pub fn subtree(&self, root: usize) -> BTreeSet<usize> {
        let mut s = BTreeSet::new();
        let mut stack = vec![root];
        while let Some(b) = stack.pop() {
            s.insert(b);
            for c in self.live_children(b) {
                stack.push(c);
            }
        }
        s
    }

    pub fn advance_to(&mut self, child: usize) {
        assert_eq!(self.blocks[child].parent, Some(self.anchor));
        let keep = self.subtree(child);
        self.live = keep;
        self.anchor = child;
    }

    /// Stability count of a live block: own depth minus the maximum depth of the other live
    /// blocks at the same height.
    pub fn stability_count(&self, b: usize) -> i64 {
        let h = self.blocks[b].height;
        let other = self
            .live
            .iter()
            .filter(|x| **x != b && self.blocks[**x].height == h)
            .map(|x| self.depth(*x) as i64)
            .max()
            .unwrap_or(0);
        self.depth(b) as i64 - other
    }

    /// The block that `min_confirmations = c` selects on the given chain (anchor..tip):
    /// c == 0 -> the tip itself.
    pub fn cut_on_chain(&self, chain: &[usize], c: u32) -> usize {
        if c == 0 {
            return *chain.last().unwrap();
        }
        let mut cut = chain[0];
        for b in chain {
            if self.stability_count(*b) < c as i64 {
                break;
            }
            cut = *b;
        }
        cut
    }

    pub fn ledger_at(&mut self, id: usize) -> Rc<Ledger> {
        if let Some(l) = &self.blocks[id].ledger {
            return l.clone();
        }
        // Iterative: find the nearest ancestor with a memoised ledger.
        let chain = self.chain_to(id);
        let mut start = 0;
        let mut ledger: Ledger = Ledger::new();
        for (i, b) in chain.iter().enumerate().rev() {
            if let Some(l) = &self.blocks[*b].ledger {
                ledger = (**l).clone();
                start = i + 1;
                break;
            }
        }
        for b in &chain[start..] {
            let blk = &self.blocks[*b];
            let height = blk.height;
            for tx in &blk.block.txdata {
                if !tx.is_coinbase() {
                    for inp in &tx.input {
                        let key = (
                            inp.previous_output.txid.to_byte_array(),
                            inp.previous_output.vout,
                        );
                        let removed = ledger.remove(&key);
                        assert!(
                            removed.is_some(),
                            "model: generator produced a spend of a missing output"
                        );
                    }
                }
                let txid = txid32(tx);
                for (i, o) in tx.output.iter().enumerate() {
                    ledger.insert(
                        (txid, i as u32),
                        Utx {
                            value: o.value.to_sat(),
                            script: o.script_pubkey.to_bytes(),
                            height,
                        },
                    );
                }
            }
            let rc = Rc::new(ledger.clone());
            self.blocks[*b].ledger = Some(rc);
        }
        self.blocks[id].ledger.clone().unwrap()
    }

    /// UTXOs of exactly this address text as of block `id`: (outpoint, value, height).
    pub fn utxos_of(&mut self, addr: &str, id: usize) -> Vec<(OutPt, u64, u32)> {
        let l = self.ledger_at(id);
        let mut v: Vec<(OutPt, u64, u32)> = l
            .iter()
            .filter(|(_, u)| self.addr_of_script(&u.script).as_deref() == Some(addr))
            .map(|(k, u)| (*k, u.value, u.height))
            .collect();
        v.sort();
        v
    }

    /// Fee rates (millisatoshi/vbyte, rounded down) of the non-coinbase transactions of the
    /// given chain, most recent first (blocks tip -> first, transactions in block order).
    pub fn fee_rates_recent_first(&mut self, chain: &[usize], limit: usize) -> Vec<u64> {
        let mut out = vec![];
        for b in chain.iter().rev() {
            let parent = self.blocks[*b].parent;
            let mut ledger: Ledger = match parent {
                Some(p) => (*self.ledger_at(p)).clone(),
                None => Ledger::new(),
            };
            let height = self.blocks[*b].height;
            let txs = self.blocks[*b].block.txdata.clone();
            for tx in &txs {
                if !tx.is_coinbase() {
                    let mut sum_in: u64 = 0;
                    for inp in &tx.input {
                        let key = (
                            inp.previous_output.txid.to_byte_array(),
                            inp.previous_output.vout,
                        );
                        sum_in += ledger.remove(&key).expect("model: missing input").value;
                    }
                    let sum_out: u64 = tx.output.iter().map(|o| o.value.to_sat()).sum();
                    let fee = sum_in - sum_out;
                    let base = bitcoin::consensus::serialize(&strip_witness(tx)).len() as u64;
                    let total = bitcoin::consensus::serialize(tx).len() as u64;
                    let weight = 3 * base + total;
                    let vsize = weight.div_ceil(4);
                    if out.len() < limit {
                        out.push(1000 * fee / vsize);
                    }
                }
                let txid = txid32(tx);
                for (i, o) in tx.output.iter().enumerate() {
                    ledger.insert(
                        (txid, i as u32),
                        Utx {
                            value: o.value.to_sat(),
                            script: o.script_pubkey.to_bytes(),
                            height,
                        },
                    );
                }
            }
            if out.len() >= limit {
                break;
            }
        }
        out
    }

    /// Net UTXO-count change of a block as the interface describes it (outputs created minus
    /// inputs spent).
    pub fn utxo_delta(&self, b: usize) -> i64 {
        let mut d = 0i64;
        for tx in &self.blocks[b].block.txdata {
            d += tx.output.len() as i64;
            if !tx.is_coinbase() {
                d -= tx.input.len() as i64;
            }
        }
        d
    }
}

pub fn strip_witness(tx: &bitcoin::Transaction) -> bitcoin::Transaction {
    let mut t = tx.clone();
    for i in t.input.iter_mut() {
        i.witness = bitcoin::Witness::new();
    }
    t
}

/// Nearest-rank percentiles 0..=100 (index 0 = minimum).
pub fn percentiles(mut v: Vec<u64>) -> Vec<u64> {
    if v.is_empty() {
        return vec![];
    }
    v.sort();
    let n = v.len() as u64;
    (0..=100u64)
        .map(|p| {
            // smallest rank r (1-based) with r/n >= p/100
            let mut r = (p * n).div_ceil(100);
            if r == 0 {
                r = 1;
            }
            v[(r - 1) as usize]
        })
        .collect()
}

#[cfg(test)]
mod tests {
    use super::*;
    #[test]
    fn percentiles_examples() {
        // from the repository's own worked examples
        assert_eq!(percentiles(vec![]), Vec::<u64>::new());
        let p = percentiles(vec![5, 4, 3, 2, 1]);
        assert_eq!(p[0], 1);
        assert_eq!(p[20], 1);
        assert_eq!(p[21], 2);
        assert_eq!(p[100], 5);
        let seq: Vec<u64> = (1..=100).collect();
        let p = percentiles(seq);
        assert_eq!(p[0], 1);
        assert_eq!(p[1], 1);
        assert_eq!(p[50], 50);
        assert_eq!(p[100], 100);
    }
}
