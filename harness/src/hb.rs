//! Heartbeat driver: the real `heartbeat()` against a request-driven block source owned by the
//! harness (regtest only: blocks need valid proof of work; uniform difficulty).
use crate::chain::{self, Net, ScriptSpec};
use crate::hist::{pick, Cfg, DiffMode, StepInfo, TxSpec, World};
use crate::model::H32;
use crate::sut::{self, SutConfig};

use ic_btc_canister as can;
use ic_btc_canister::runtime::verif_hooks as hooks;
use ic_btc_canister::runtime::GetSuccessorsReply;
use ic_btc_canister::types::{
    BlockHeaderBlob, GetSuccessorsCompleteResponse, GetSuccessorsPartialResponse, GetSuccessorsRequest,
    GetSuccessorsResponse,
};
use bitcoin::hashes::Hash;
use serde::{Deserialize, Serialize};
use std::cell::RefCell;
use std::collections::VecDeque;
use std::rc::Rc;

#[derive(Clone, Debug, Serialize, Deserialize)]
pub enum ReplyPlan {
    Complete { max_blocks: u8, announce: u8 },
    /// The first offered block is delivered in `pages`+1 pieces; `cuts` are per-mille cut points;
    /// `reject_at`: reject the follow-up with that number instead of answering it.
    Split { pages: u8, cuts: Vec<u16>, announce: u8, reject_at: Option<u8> },
    Reject,
    Empty,
    /// Explicit contents (blocks, next headers) -- used by C10.
    Custom { blocks: Vec<Vec<u8>>, next: Vec<Vec<u8>> },
    /// A complete reply that also contains a block the request itself lists as processed (a
    /// source that offers a block again), before or after up to `max_blocks` new blocks; no
    /// headers are announced. The canister must refuse the known block and never hold it twice.
    Reoffer { sel: u16, max_blocks: u8, first: bool },
}

#[derive(Clone, Debug)]
pub enum ReplyKind {
    Complete(usize),
    Partial(u8),
    FollowUp,
    Reject,
    NothingToOffer,
}

#[derive(Clone, Debug)]
pub struct LogEntry {
    pub request: GetSuccessorsRequest,
    pub reply: ReplyKind,
    /// For partial replies: hash of the block being split.
    pub split_block: Option<H32>,
}

#[derive(Clone)]
pub struct SrcBlock {
    pub hash: H32,
    pub parent: H32,
    pub bytes: Vec<u8>,
    pub header: Vec<u8>,
}

#[derive(Default)]
pub struct Source {
    pub known: Vec<SrcBlock>,
    pub plan: VecDeque<ReplyPlan>,
    pub pending: Option<(Vec<Vec<u8>>, usize, Option<u8>)>,
    pub log: Vec<LogEntry>,
    /// Blocks that were contained in some complete (or completed split) response.
    pub delivered: Vec<H32>,
    /// Number of replies that offered an already processed block again.
    pub reoffered: u64,
    /// Number of faults (rejects) injected so far.
    pub faults: usize,
    /// When set, the reply shape for an initial request is a function of the request contents
    /// only (the same request always gets the same shape), chosen from this list.
    pub plan_by_request: Option<Vec<ReplyPlan>>,
    /// The announced headers (`next`) of the most recent complete/partial reply.
    pub last_next: Vec<Vec<u8>>,
}

fn hash_arr(h: &ic_btc_types::BlockHash) -> H32 {
    let mut a = [0u8; 32];
    a.copy_from_slice(h.as_bytes());
    a
}

/// Builds a header blob through candid decoding, as in production (`BlockHeaderBlob::from`
/// asserts 80 bytes).
pub fn header_blob(bytes: &[u8]) -> BlockHeaderBlob {
    let enc = candid::encode_one(serde_bytes::ByteBuf::from(bytes.to_vec())).unwrap();
    candid::decode_one::<BlockHeaderBlob>(&enc).unwrap()
}

impl Source {
    /// Successors of the canister's view in breadth-first order: blocks that descend from the
    /// anchor, are not processed, and whose parent is the anchor / processed / earlier in the list.
    pub fn successors(&self, anchor: &H32, processed: &[H32]) -> Vec<&SrcBlock> {
        let mut have: Vec<H32> = vec![*anchor];
        have.extend(processed.iter().copied());
        let mut out: Vec<&SrcBlock> = vec![];
        let mut frontier: VecDeque<H32> = have.iter().copied().collect();
        let mut visited: std::collections::BTreeSet<H32> = Default::default();
        while let Some(p) = frontier.pop_front() {
            if !visited.insert(p) {
                continue;
            }
            for b in self.known.iter().filter(|b| b.parent == p) {
                if !have.contains(&b.hash) {
                    out.push(b);
                    have.push(b.hash);
                }
                frontier.push_back(b.hash);
            }
        }
        out
    }

    fn reply(&mut self, req: &GetSuccessorsRequest) -> GetSuccessorsReply {
        let reject = |msg: &str| GetSuccessorsReply::Err(ic_cdk::call::RejectCode::SysTransient, msg.to_string());
        match req {
            GetSuccessorsRequest::FollowUp(k) => {
                let (reply, kind) = match self.pending.as_mut() {
                    Some((pages, next, reject_at)) if *next == *k as usize + 1 && *next < pages.len() => {
                        if *reject_at == Some(*k) {
                            self.pending = None;
                            self.faults += 1;
                            (reject("follow-up rejected"), ReplyKind::Reject)
                        } else {
                            let page = pages[*next].clone();
                            *next += 1;
                            if *next == pages.len() {
                                self.pending = None;
                            }
                            (GetSuccessorsReply::Ok(GetSuccessorsResponse::FollowUp(page)), ReplyKind::FollowUp)
                        }
                    }
                    _ => {
                        self.pending = None;
                        (reject("unexpected follow-up"), ReplyKind::Reject)
                    }
                };
                self.log.push(LogEntry { request: req.clone(), reply: kind, split_block: None });
                reply
            }
            GetSuccessorsRequest::Initial(init) => {
                self.pending = None;
                let anchor = hash_arr(&init.anchor);
                let processed: Vec<H32> = init.processed_block_hashes.iter().map(hash_arr).collect();
                let plan = match &self.plan_by_request {
                    Some(plans) if !plans.is_empty() => {
                        let mut key: Vec<u8> = anchor.to_vec();
                        for p in &processed {
                            key.extend(p);
                        }
                        plans[(crate::engine::fnv(&key) % plans.len() as u64) as usize].clone()
                    }
                    _ => self.plan.pop_front().unwrap_or(ReplyPlan::Complete { max_blocks: 2, announce: 2 }),
                };
                let succ: Vec<SrcBlock> = self.successors(&anchor, &processed).into_iter().cloned().collect();
                let (reply, kind, split) = match plan {
                    ReplyPlan::Reject => {
                        self.faults += 1;
                        (reject("rejected"), ReplyKind::Reject, None)
                    }
                    ReplyPlan::Empty => (
                        GetSuccessorsReply::Ok(GetSuccessorsResponse::Complete(GetSuccessorsCompleteResponse { blocks: vec![], next: vec![] })),
                        ReplyKind::Complete(0),
                        None,
                    ),
                    ReplyPlan::Custom { blocks, next } => {
                        let n = blocks.len();
                        (
                            GetSuccessorsReply::Ok(GetSuccessorsResponse::Complete(GetSuccessorsCompleteResponse {
                                blocks,
                                next: next.iter().map(|h| header_blob(h)).collect(),
                            })),
                            ReplyKind::Complete(n),
                            None,
                        )
                    }
                    ReplyPlan::Reoffer { sel, max_blocks, first } => {
                        let n = (max_blocks.max(1) as usize).min(succ.len());
                        let mut blocks: Vec<Vec<u8>> = succ[..n].iter().map(|b| b.bytes.clone()).collect();
                        let known: Vec<&SrcBlock> = processed.iter().filter_map(|h| self.known.iter().find(|b| b.hash == *h)).collect();
                        if !known.is_empty() {
                            let k = known[pick(sel, known.len())].bytes.clone();
                            self.reoffered += 1;
                            if first {
                                blocks.insert(0, k);
                            } else {
                                blocks.push(k);
                            }
                        }
                        let total = blocks.len();
                        let kind = if total == 0 { ReplyKind::NothingToOffer } else { ReplyKind::Complete(total) };
                        (GetSuccessorsReply::Ok(GetSuccessorsResponse::Complete(GetSuccessorsCompleteResponse { blocks, next: vec![] })), kind, None)
                    }
                    ReplyPlan::Complete { max_blocks, announce } => {
                        let n = (max_blocks.max(1) as usize).min(succ.len());
                        let blocks: Vec<Vec<u8>> = succ[..n].iter().map(|b| b.bytes.clone()).collect();
                        for b in &succ[..n] {
                            self.delivered.push(b.hash);
                        }
                        let next = succ[n..].iter().take(announce as usize).map(|b| header_blob(&b.header)).collect();
                        let kind = if n == 0 { ReplyKind::NothingToOffer } else { ReplyKind::Complete(n) };
                        (GetSuccessorsReply::Ok(GetSuccessorsResponse::Complete(GetSuccessorsCompleteResponse { blocks, next })), kind, None)
                    }
                    ReplyPlan::Split { pages, cuts, announce, reject_at } => {
                        if succ.is_empty() {
                            (
                                GetSuccessorsReply::Ok(GetSuccessorsResponse::Complete(GetSuccessorsCompleteResponse { blocks: vec![], next: vec![] })),
                                ReplyKind::NothingToOffer,
                                None,
                            )
                        } else {
                            let b = &succ[0];
                            let pages = pages.max(1) as usize;
                            let len = b.bytes.len();
                            let mut points: Vec<usize> = (0..pages)
                                .map(|i| {
                                    let c = cuts.get(i % cuts.len().max(1)).copied().unwrap_or(((i + 1) * 1000 / (pages + 1)) as u16);
                                    (len * (c as usize % 1001)) / 1000
                                })
                                .collect();
                            points.sort();
                            let mut chunks = vec![];
                            let mut prev = 0;
                            for p in points {
                                chunks.push(b.bytes[prev..p].to_vec());
                                prev = p;
                            }
                            chunks.push(b.bytes[prev..].to_vec());
                            let first = chunks[0].clone();
                            self.pending = Some((chunks, 1, reject_at.map(|r| r % pages as u8)));
                            if reject_at.is_none() {
                                self.delivered.push(b.hash);
                            }
                            let next = succ[1..].iter().take(announce as usize).map(|x| header_blob(&x.header)).collect();
                            (
                                GetSuccessorsReply::Ok(GetSuccessorsResponse::Partial(GetSuccessorsPartialResponse {
                                    partial_block: first,
                                    next,
                                    remaining_follow_ups: pages as u8,
                                })),
                                ReplyKind::Partial(pages as u8),
                                Some(b.hash),
                            )
                        }
                    }
                };
                self.last_next = match &reply {
                    GetSuccessorsReply::Ok(GetSuccessorsResponse::Complete(c)) => c.next.iter().map(|h| h.as_slice().to_vec()).collect(),
                    GetSuccessorsReply::Ok(GetSuccessorsResponse::Partial(p)) => p.next.iter().map(|h| h.as_slice().to_vec()).collect(),
                    _ => vec![],
                };
                self.log.push(LogEntry { request: req.clone(), reply: kind, split_block: split });
                reply
            }
        }
    }
}

pub struct HbWorld {
    pub w: World,
    pub source: Rc<RefCell<Source>>,
    pub heartbeats: usize,
    /// Model of the validated announced headers: hash -> height.
    pub announced: std::collections::BTreeMap<H32, u32>,
}

#[derive(Clone, Debug, Default)]
pub struct HbInfo {
    pub step: StepInfo,
    pub trapped: Option<String>,
    pub admitted: Vec<usize>,
    pub paused_after: bool,
    pub requests_issued: usize,
}

pub fn hb_cfg(threshold: u8, pool: Vec<ScriptSpec>) -> Cfg {
    Cfg { net: Net::Regtest, threshold, pool, diff_mode: DiffMode::One, validated: true }
}

impl HbWorld {
    pub fn new(cfg: &Cfg, sut_cfg: SutConfig) -> Self {
        let w = World::new_with(cfg, sut_cfg);
        let source = Rc::new(RefCell::new(Source::default()));
        let s2 = source.clone();
        hooks::set_fetch_handler(Some(Box::new(move |req| {
            let reply = s2.borrow_mut().reply(req);
            can::runtime::set_successors_response(reply);
        })));
        HbWorld { w, source, heartbeats: 0, announced: Default::default() }
    }

    /// Blocks (ids) that descend from the canister's anchor, delivered or not.
    pub fn descendants_of_anchor(&self) -> Vec<usize> {
        let m = &self.w.model;
        (0..m.blocks.len()).filter(|b| m.is_ancestor_or_self(m.anchor, *b)).collect()
    }

    /// Mines a block known to the source only.
    pub fn mine(&mut self, parent_sel: u16, prefer_tip: bool, coinbase: &[(u8, u16)], txs: &[TxSpec], dt: u16) -> usize {
        let cands = self.descendants_of_anchor();
        let parent = if prefer_tip {
            // the deepest candidate (latest mined on ties)
            *cands.iter().max_by_key(|b| (self.w.model.blocks[**b].height, **b)).unwrap()
        } else {
            cands[pick(parent_sel, cands.len())]
        };
        self.mine_on(parent, coinbase, txs, dt)
    }

    pub fn mine_on(&mut self, parent: usize, coinbase: &[(u8, u16)], txs: &[TxSpec], dt: u16) -> usize {
        let (id, _, _) = self.w.mine_detached(parent, coinbase, txs, None, dt);
        let b = &self.w.model.blocks[id];
        self.source.borrow_mut().known.push(SrcBlock {
            hash: b.hash,
            parent: self.w.model.blocks[parent].hash,
            bytes: chain::serialize_block(&b.block),
            header: chain::serialize_header(&b.block.header),
        });
        id
    }

    pub fn plan(&mut self, p: ReplyPlan) {
        self.source.borrow_mut().plan.push_back(p);
    }

    /// Runs one heartbeat with the given instruction budget for ingestion (None = unlimited) and
    /// brings the model in line with what the canister admitted.
    pub fn heartbeat(&mut self, budget: Option<u16>) -> HbInfo {
        let mut info = HbInfo::default();
        info.step.live_set_matches = true;
        info.step.pre_best_tip = self.w.model.best_tip();
        info.step.pre_anchor = self.w.model.anchor;
        self.heartbeats += 1;
        hooks::performance_counter_reset();
        match budget {
            None => hooks::set_performance_counter_step(0),
            Some(k) => hooks::set_performance_counter_step(1_000_000_000u64.div_ceil(k.max(1) as u64 + 1)),
        }
        let log_before = self.source.borrow().log.len();
        let complete_stored_before = can::with_state(|s| matches!(s.syncing_state.response_to_process, Some(can::state::ResponseToProcess::Complete(_))));
        let r = sut::guarded(|| futures::executor::block_on(can::heartbeat()));
        hooks::set_performance_counter_step(0);
        hooks::performance_counter_reset();
        info.requests_issued = self.source.borrow().log.len() - log_before;
        if let Err(p) = r {
            info.trapped = Some(p);
            return info;
        }
        let anchor_before = self.w.model.anchor_height();
        self.sync(&mut info);
        // ---- model of the announced headers ----------------------------------------------
        // dropped when their block arrives
        for id in &info.admitted {
            let h = self.w.model.blocks[*id].hash;
            self.announced.remove(&h);
        }
        // dropped at the latest when the stable height reaches theirs
        if self.w.model.anchor_height() != anchor_before {
            let sh = self.w.model.anchor_height();
            self.announced.retain(|_, height| *height > sh);
        }
        let processed = complete_stored_before && can::with_state(|s| s.syncing_state.response_to_process.is_none()) && info.requests_issued == 0;
        if processed {
            let next = self.source.borrow().last_next.clone();
            for raw in next {
                let hd: bitcoin::block::Header = match bitcoin::consensus::deserialize(&raw) {
                    Ok(h) => h,
                    Err(_) => break,
                };
                let hash = hd.block_hash().to_byte_array();
                if self.announced.contains_key(&hash) {
                    continue;
                }
                // connected: walk back through announced headers to a block of the tree
                let prev = hd.prev_blockhash.to_byte_array();
                let height = if let Some(h) = self.announced.get(&prev) {
                    // the announced chain must be rooted in the tree
                    let mut cur = prev;
                    let mut rooted = false;
                    for _ in 0..10_000 {
                        match self.w.model.id_of(&cur) {
                            Some(id) if self.w.model.live.contains(&id) => {
                                rooted = true;
                                break;
                            }
                            _ => {}
                        }
                        if !self.announced.contains_key(&cur) {
                            break;
                        }
                        cur = match self.w.model.id_of(&cur) {
                            Some(id) => self.w.model.blocks[self.w.model.blocks[id].parent.unwrap()].hash,
                            None => break,
                        };
                    }
                    if !rooted {
                        break;
                    }
                    *h + 1
                } else {
                    match self.w.model.id_of(&prev) {
                        Some(p) if self.w.model.live.contains(&p) => self.w.model.blocks[p].height + 1,
                        _ => break,
                    }
                };
                if self.w.model.id_of(&hash).map(|id| self.w.model.live.contains(&id)).unwrap_or(false) {
                    break;
                }
                self.announced.insert(hash, height);
            }
        }
        info
    }

    pub fn max_announced_height(&self) -> Option<u32> {
        self.announced.values().copied().max()
    }

    pub fn sync(&mut self, info: &mut HbInfo) {
        info.paused_after = sut::is_ingesting();
        // newly admitted blocks
        let tree = sut::tree_hashes();
        let mut new_ids: Vec<usize> = vec![];
        for h in &tree {
            match self.w.model.id_of(h) {
                Some(id) => {
                    if !self.w.model.live.contains(&id) {
                        new_ids.push(id);
                    }
                }
                None => info.step.errors.push("the tree contains a block that was never built".to_string()),
            }
        }
        new_ids.sort_by_key(|id| self.w.model.blocks[*id].height);
        for id in new_ids {
            if self.w.model.admit(id) {
                info.admitted.push(id);
            } else {
                info.step.errors.push("the tree contains a block whose parent is not in the tree".to_string());
            }
        }
        self.w.sync_anchor(&mut info.step);
        if info.paused_after {
            // the next stable block is being ingested: a child that satisfies the rule is
            // expected to remain until that ingestion completes
            info.step.demanded_left = None;
        }
    }

    pub fn upgrade(&mut self, arg: Option<ic_btc_interface::SetConfigRequest>) -> Result<(), String> {
        let r = sut::upgrade(arg);
        // an in-flight / partial fetch is abandoned by the canister; the source forgets its
        // pending pages when the next initial request arrives.
        r
    }

    /// True iff the canister's tree contains every block the source knows that descends from
    /// the anchor.
    pub fn fully_synced(&self) -> bool {
        self.descendants_of_anchor().iter().all(|b| self.w.model.live.contains(b))
    }
}

impl Drop for HbWorld {
    fn drop(&mut self) {
        hooks::set_fetch_handler(None);
    }
}

// ---------------------------------------------------------------------------------------------
// Scenarios (shared by C08, C09, C13, C14)
// ---------------------------------------------------------------------------------------------
use proptest::prelude::*;

#[derive(Clone, Debug, Serialize, Deserialize)]
pub struct MineSpec {
    pub parent: u16,
    pub prefer_tip: bool,
    pub coinbase: Vec<(u8, u16)>,
    pub txs: Vec<TxSpec>,
    pub dt: u16,
}

#[derive(Clone, Debug, Serialize, Deserialize)]
pub enum Ev {
    Mine(MineSpec),
    /// One heartbeat; budget = operations per ingestion round (None = unlimited).
    Beat(Option<u16>),
    Plan(ReplyPlan),
    Upgrade,
}

#[derive(Clone, Debug, Serialize, Deserialize)]
pub struct Scenario {
    pub threshold: u8,
    pub pool: Vec<ScriptSpec>,
    pub evs: Vec<Ev>,
}

pub fn mine_strategy(max_txs: usize) -> impl Strategy<Value = MineSpec> {
    (
        any::<u16>(),
        prop_oneof![3 => Just(true), 1 => Just(false)],
        prop::collection::vec((0u8..8, prop_oneof![1 => Just(0u16), 8 => 1u16..1000]), 1..=3),
        prop::collection::vec(crate::hist::tx_spec_strategy(), 0..=max_txs),
        1u16..1000,
    )
        .prop_map(|(parent, prefer_tip, coinbase, txs, dt)| MineSpec { parent, prefer_tip, coinbase, txs, dt })
}

pub fn plan_strategy(with_faults: bool) -> BoxedStrategy<ReplyPlan> {
    let complete = (1u8..4, 0u8..5).prop_map(|(max_blocks, announce)| ReplyPlan::Complete { max_blocks, announce });
    let split = (
        prop_oneof![6 => 1u8..5, 1 => 5u8..40, 1 => Just(255u8)],
        prop::collection::vec(0u16..=1000, 1..6),
        0u8..4,
        if with_faults { prop_oneof![3 => Just(None), 1 => any::<u8>().prop_map(Some)].boxed() } else { Just(None).boxed() },
    )
        .prop_map(|(pages, cuts, announce, reject_at)| ReplyPlan::Split { pages, cuts, announce, reject_at });
    if with_faults {
        let reoffer = (any::<u16>(), 1u8..3, any::<bool>()).prop_map(|(sel, max_blocks, first)| ReplyPlan::Reoffer { sel, max_blocks, first });
        prop_oneof![10 => complete, 8 => split, 4 => Just(ReplyPlan::Reject), 2 => Just(ReplyPlan::Empty), 3 => reoffer].boxed()
    } else {
        prop_oneof![5 => complete, 3 => split, 1 => Just(ReplyPlan::Empty)].boxed()
    }
}

pub fn scenario_strategy(max_evs: usize, max_txs: usize, with_faults: bool, with_upgrade: bool, sliced: bool) -> impl Strategy<Value = Scenario> {
    let budget = if sliced {
        prop_oneof![1 => Just(None), 5 => (1u16..6).prop_map(Some)].boxed()
    } else {
        Just(None).boxed()
    };
    let mut evs: Vec<(u32, BoxedStrategy<Ev>)> = vec![
        (8, mine_strategy(max_txs).prop_map(Ev::Mine).boxed()),
        (14, budget.prop_map(Ev::Beat).boxed()),
        (4, plan_strategy(with_faults).prop_map(Ev::Plan).boxed()),
    ];
    if with_upgrade {
        evs.push((2, Just(Ev::Upgrade).boxed()));
    }
    (
        prop_oneof![5 => 1u8..=2, 2 => 3u8..=4],
        crate::hist::pool_strategy(),
        prop::collection::vec(proptest::strategy::Union::new_weighted(evs), 1..=max_evs),
    )
        .prop_map(|(threshold, pool, evs)| Scenario { threshold, pool, evs })
}

pub fn scenario_brief(s: &Scenario) -> serde_json::Value {
    serde_json::json!({
        "threshold": s.threshold,
        "pool": s.pool.iter().map(|p| format!("{:?}", p)).collect::<Vec<_>>(),
        "events": s.evs.iter().map(|e| match e {
            Ev::Mine(m) => format!("Mine(parent_sel={}, tip={}, cb_outs={}, txs={}, dt={})", m.parent, m.prefer_tip, m.coinbase.len(), m.txs.len(), m.dt),
            Ev::Beat(b) => format!("Heartbeat(budget={:?})", b),
            Ev::Plan(p) => match p {
                ReplyPlan::Custom { blocks, next } => format!("Plan(Custom blocks={} next={})", blocks.len(), next.len()),
                other => format!("Plan({:?})", other),
            },
            Ev::Upgrade => "Upgrade".to_string(),
        }).collect::<Vec<_>>(),
    })
}
