#![allow(dead_code)]
pub mod chain;
pub mod engine;
pub mod gag;
pub mod hb;
pub mod hist;
pub mod model;
pub mod powmodel;
pub mod props;
pub mod snapshot;
pub mod sut;

pub type BitcoinTransaction = bitcoin::Transaction;
pub fn serialize_tx(tx: &bitcoin::Transaction) -> Vec<u8> {
    bitcoin::consensus::serialize(tx)
}
