//! Construction of scripts, addresses, transactions and blocks.
use bitcoin::absolute::LockTime;
use bitcoin::block::{Header, Version as BlockVersion};
use bitcoin::hashes::Hash;
use bitcoin::script::{Builder, PushBytesBuf};
use bitcoin::{
    transaction, Amount, Block, BlockHash, CompactTarget, OutPoint, PubkeyHash, ScriptBuf,
    ScriptHash, Sequence, Transaction, TxIn, TxMerkleNode, TxOut, WPubkeyHash, WScriptHash,
    Witness, WitnessProgram, WitnessVersion,
};
use serde::{Deserialize, Serialize};

#[derive(Clone, Copy, Debug, PartialEq, Eq, Serialize, Deserialize, Hash, PartialOrd, Ord)]
pub enum Net {
    Mainnet,
    Testnet,
    Regtest,
}

impl Net {
    pub fn btc(self) -> bitcoin::Network {
        match self {
            Net::Mainnet => bitcoin::Network::Bitcoin,
            Net::Testnet => bitcoin::Network::Testnet4,
            Net::Regtest => bitcoin::Network::Regtest,
        }
    }
    pub fn ic(self) -> ic_btc_interface::Network {
        match self {
            Net::Mainnet => ic_btc_interface::Network::Mainnet,
            Net::Testnet => ic_btc_interface::Network::Testnet,
            Net::Regtest => ic_btc_interface::Network::Regtest,
        }
    }
    pub fn in_request(self) -> ic_btc_interface::NetworkInRequest {
        match self {
            Net::Mainnet => ic_btc_interface::NetworkInRequest::Mainnet,
            Net::Testnet => ic_btc_interface::NetworkInRequest::Testnet,
            Net::Regtest => ic_btc_interface::NetworkInRequest::Regtest,
        }
    }
    pub fn all() -> [Net; 3] {
        [Net::Mainnet, Net::Testnet, Net::Regtest]
    }
}

/// A script recipe. Everything is derived deterministically from small integers so that cases
/// shrink and serialise well.
#[derive(Clone, Debug, PartialEq, Eq, Serialize, Deserialize, Hash)]
pub enum ScriptSpec {
    P2pkh(u8),
    P2sh(u8),
    P2wpkh(u8),
    P2wsh(u8),
    P2tr(u8),
    /// Future witness program: version 1..=16, program length 2..=40.
    Wit { ver: u8, len: u8, seed: u8 },
    /// A witness program whose address text starts with the text of the (segwit) base address.
    PrefixOf { base: Box<ScriptSpec>, ext: u8 },
    OpReturn(u8),
    Empty,
    /// Bare pubkey: no address.
    BarePk(u8),
    /// Bare 1-of-2 multisig: no address.
    Multisig(u8),
    /// Arbitrary non-standard bytes of the given length (no address; lengths > 201 use the
    /// "large" UTXO store).
    Junk { len: u16, seed: u8 },
}

fn fill(seed: u8, len: usize, salt: u8) -> Vec<u8> {
    // Deterministic pseudo-random bytes (xorshift), never all equal so that hashes differ.
    let mut x: u32 = 0x9E37_79B9 ^ ((seed as u32) << 8) ^ (salt as u32) ^ ((len as u32) << 16);
    (0..len)
        .map(|_| {
            x ^= x << 13;
            x ^= x >> 17;
            x ^= x << 5;
            (x >> 11) as u8
        })
        .collect()
}

const BECH32_CHARSET: &[u8; 32] = b"qpzry9x8gf2tvdw0s3jn54khce6mua7l";

/// Builds a witness program whose bech32(m) address text starts with the complete text of
/// `base_addr`: the 5-bit data of the new address is data(base) ++ checksum(base) ++ X.
fn prefix_extension(base_addr: &str, ext: u8) -> Option<(WitnessVersion, Vec<u8>)> {
    let sep = base_addr.rfind('1')?;
    let data: Vec<u8> = base_addr[sep + 1..]
        .bytes()
        .map(|c| BECH32_CHARSET.iter().position(|x| *x == c).map(|p| p as u8))
        .collect::<Option<Vec<u8>>>()?;
    let ver = *data.first()?;
    let mut groups: Vec<u8> = data[1..].to_vec(); // program groups + 6 checksum groups
    // Choose the number of extra groups so that the total bit length has < 5 padding bits that
    // we can force to zero, and the program length is acceptable for the version.
    let candidates: &[usize] = if ver == 0 { &[14] } else { &[2, 6] };
    for (ci, extra) in candidates.iter().enumerate() {
        // pick candidate depending on ext parity to get both lengths
        if candidates.len() > 1 && (ext as usize & 1) != ci {
            continue;
        }
        let mut g = groups.clone();
        let xs = fill(ext, *extra, 7);
        g.extend(xs.iter().map(|b| b & 31));
        let bits = g.len() * 5;
        let pad = bits % 8;
        if pad >= 5 {
            continue;
        }
        // Zero the padding bits in the last group.
        if pad > 0 {
            let last = g.len() - 1;
            g[last] &= !((1u8 << pad) - 1) & 31;
        }
        let mut acc: u32 = 0;
        let mut nbits = 0;
        let mut program = vec![];
        for v in g.iter() {
            acc = (acc << 5) | (*v as u32);
            nbits += 5;
            while nbits >= 8 {
                nbits -= 8;
                program.push(((acc >> nbits) & 0xff) as u8);
            }
        }
        let len_ok = if ver == 0 {
            program.len() == 20 || program.len() == 32
        } else {
            (2..=40).contains(&program.len())
        };
        if !len_ok {
            continue;
        }
        let version = WitnessVersion::try_from(ver).ok()?;
        return Some((version, program));
    }
    groups.clear();
    None
}

impl ScriptSpec {
    pub fn script(&self, net: Net) -> ScriptBuf {
        match self {
            ScriptSpec::P2pkh(s) => {
                let h: [u8; 20] = fill(*s, 20, 1).try_into().unwrap();
                ScriptBuf::new_p2pkh(&PubkeyHash::from_byte_array(h))
            }
            ScriptSpec::P2sh(s) => {
                let h: [u8; 20] = fill(*s, 20, 2).try_into().unwrap();
                ScriptBuf::new_p2sh(&ScriptHash::from_byte_array(h))
            }
            ScriptSpec::P2wpkh(s) => {
                let h: [u8; 20] = fill(*s, 20, 3).try_into().unwrap();
                ScriptBuf::new_p2wpkh(&WPubkeyHash::from_byte_array(h))
            }
            ScriptSpec::P2wsh(s) => {
                let h: [u8; 32] = fill(*s, 32, 4).try_into().unwrap();
                ScriptBuf::new_p2wsh(&WScriptHash::from_byte_array(h))
            }
            ScriptSpec::P2tr(s) => {
                let prog = fill(*s, 32, 5);
                let wp = WitnessProgram::new(WitnessVersion::V1, &prog).unwrap();
                ScriptBuf::new_witness_program(&wp)
            }
            ScriptSpec::Wit { ver, len, seed } => {
                let ver = (*ver).clamp(1, 16);
                let mut len = (*len).clamp(2, 40) as usize;
                if ver == 1 && len == 32 {
                    len = 33; // keep it distinct from P2TR
                }
                let prog = fill(*seed, len, 6);
                let wp = WitnessProgram::new(WitnessVersion::try_from(ver).unwrap(), &prog).unwrap();
                ScriptBuf::new_witness_program(&wp)
            }
            ScriptSpec::PrefixOf { base, ext } => {
                let base_script = base.script(net);
                let base_addr = address_of(&base_script, net);
                match base_addr.and_then(|a| prefix_extension(&a, *ext)) {
                    Some((ver, prog)) => match WitnessProgram::new(ver, &prog) {
                        Ok(wp) => ScriptBuf::new_witness_program(&wp),
                        Err(_) => base_script,
                    },
                    None => base_script,
                }
            }
            ScriptSpec::OpReturn(len) => {
                let data = fill(*len, (*len as usize) % 76, 8);
                ScriptBuf::new_op_return(PushBytesBuf::try_from(data).unwrap())
            }
            ScriptSpec::Empty => ScriptBuf::new(),
            ScriptSpec::BarePk(s) => {
                let mut pk = fill(*s, 33, 9);
                pk[0] = 2;
                Builder::new()
                    .push_slice(PushBytesBuf::try_from(pk).unwrap())
                    .push_opcode(bitcoin::opcodes::all::OP_CHECKSIG)
                    .into_script()
            }
            ScriptSpec::Multisig(s) => {
                let mut pk1 = fill(*s, 33, 10);
                pk1[0] = 2;
                let mut pk2 = fill(*s, 33, 11);
                pk2[0] = 3;
                Builder::new()
                    .push_int(1)
                    .push_slice(PushBytesBuf::try_from(pk1).unwrap())
                    .push_slice(PushBytesBuf::try_from(pk2).unwrap())
                    .push_int(2)
                    .push_opcode(bitcoin::opcodes::all::OP_CHECKMULTISIG)
                    .into_script()
            }
            ScriptSpec::Junk { len, seed } => {
                let mut bytes = fill(*seed, *len as usize, 12);
                if let Some(b) = bytes.first_mut() {
                    // Avoid accidentally producing OP_RETURN or a witness program prefix.
                    *b = 0xac; // OP_CHECKSIG
                }
                ScriptBuf::from_bytes(bytes)
            }
        }
    }
}

/// The address text of a script on a network, if it has one (rust-bitcoin is the trusted base
/// for script -> address text).
pub fn address_of(script: &bitcoin::Script, net: Net) -> Option<String> {
    bitcoin::Address::from_script(script, net.btc())
        .ok()
        .map(|a| a.to_string())
}

pub fn coinbase_tx(height: u32, nonce: u64, outputs: Vec<TxOut>) -> Transaction {
    let script_sig = Builder::new()
        .push_int(height as i64)
        .push_slice(nonce.to_le_bytes())
        .into_script();
    Transaction {
        version: transaction::Version(2),
        lock_time: LockTime::ZERO,
        input: vec![TxIn {
            previous_output: OutPoint::null(),
            script_sig,
            sequence: Sequence(0xffff_ffff),
            witness: Witness::new(),
        }],
        output: outputs,
    }
}

pub fn spend_tx(
    inputs: &[OutPoint],
    outputs: Vec<TxOut>,
    witness_items: Option<u8>,
    version: i32,
) -> Transaction {
    Transaction {
        version: transaction::Version(version),
        lock_time: LockTime::ZERO,
        input: inputs
            .iter()
            .enumerate()
            .map(|(i, op)| TxIn {
                previous_output: *op,
                script_sig: if witness_items.is_some() {
                    ScriptBuf::new()
                } else {
                    ScriptBuf::from_bytes(fill(i as u8, 20 + (i % 3) * 30, 13))
                },
                sequence: Sequence(0xffff_fffd),
                witness: match witness_items {
                    Some(n) => {
                        let mut w = Witness::new();
                        for k in 0..(n % 4 + 1) {
                            w.push(fill(k, 10 + (n as usize % 60), 14));
                        }
                        w
                    }
                    None => Witness::new(),
                },
            })
            .collect(),
        output: outputs,
    }
}

pub fn txout(value: u64, script: ScriptBuf) -> TxOut {
    TxOut {
        value: Amount::from_sat(value),
        script_pubkey: script,
    }
}

pub const REGTEST_BITS: u32 = 0x207f_ffff;
pub const MAINNET_BITS: u32 = 0x1d00_ffff;

/// Builds a block on top of `prev` (hash) with the given time. On regtest the header is mined.
pub fn build_block(
    net: Net,
    prev: BlockHash,
    time: u32,
    txdata: Vec<Transaction>,
    mine: bool,
) -> Block {
    let mut block = Block {
        header: Header {
            version: BlockVersion::from_consensus(0x2000_0000),
            prev_blockhash: prev,
            merkle_root: TxMerkleNode::all_zeros(),
            time,
            bits: CompactTarget::from_consensus(match net {
                Net::Regtest => REGTEST_BITS,
                _ => MAINNET_BITS,
            }),
            nonce: 0,
        },
        txdata,
    };
    block.header.merkle_root = block
        .compute_merkle_root()
        .unwrap_or(TxMerkleNode::all_zeros());
    if mine {
        mine_header(&mut block.header);
    }
    block
}

pub fn mine_header(header: &mut Header) {
    let target = header.target();
    loop {
        if header.validate_pow(target).is_ok() {
            return;
        }
        header.nonce = header.nonce.wrapping_add(1);
    }
}

pub fn genesis(net: Net) -> Block {
    bitcoin::blockdata::constants::genesis_block(net.btc())
}

pub fn hash32(h: &BlockHash) -> [u8; 32] {
    h.to_byte_array()
}

pub fn serialize_block(b: &Block) -> Vec<u8> {
    bitcoin::consensus::serialize(b)
}

pub fn serialize_header(h: &Header) -> Vec<u8> {
    bitcoin::consensus::serialize(h)
}

#[cfg(test)]
mod tests {
    use super::*;

    #[test]
    fn prefix_pairs_are_real() {
        for net in Net::all() {
            for s in 0..20u8 {
                for base in [ScriptSpec::P2tr(s), ScriptSpec::P2wpkh(s), ScriptSpec::P2wsh(s)] {
                    for ext in 0..4u8 {
                        let a = address_of(&base.script(net), net).unwrap();
                        let spec = ScriptSpec::PrefixOf {
                            base: Box::new(base.clone()),
                            ext,
                        };
                        let b = address_of(&spec.script(net), net).unwrap();
                        if matches!(base, ScriptSpec::P2wsh(_)) {
                            continue; // v0 32-byte program cannot be extended to a valid v0 program
                        }
                        assert!(b.starts_with(&a) && b != a, "{a} {b}");
                        // and it parses back
                        let parsed: bitcoin::Address<bitcoin::address::NetworkUnchecked> =
                            b.parse().unwrap();
                        assert!(parsed.require_network(net.btc()).is_ok());
                    }
                }
            }
        }
    }
}
