#![no_main]
//! Generic coverage-guided target (property chosen by VP_FUZZ_PROP). Inputs are serialised
//! cases of the property (the JSON form of a replay file's `case`); the custom mutator edits
//! them only with material produced by the property's own proptest strategy, the case runs
//! through the same `Property::run` oracle as the property-based tier, and a violation aborts
//! so that libFuzzer saves the input (reduced and confirmed by `vp <id> --shrink-case <file>`).
use libfuzzer_sys::{fuzz_crossover, fuzz_mutator, fuzz_target};
use std::sync::Once;

static INIT: Once = Once::new();

fuzz_target!(|data: &[u8]| {
    INIT.call_once(|| {
        vp::gag::install();
        vp::sut::install_panic_hook();
    });
    if let Some(m) = vp::props::fuzz_face().one(data) {
        eprintln!("FUZZ-VIOLATION: {}", m);
        std::process::abort();
    }
});

fuzz_mutator!(|data: &mut [u8], size: usize, max_size: usize, seed: u32| {
    let out = vp::props::fuzz_face().mutate(&data[..size], seed, max_size.min(data.len()));
    let n = out.len().min(data.len());
    data[..n].copy_from_slice(&out[..n]);
    n
});

fuzz_crossover!(|a: &[u8], b: &[u8], out: &mut [u8], seed: u32| {
    let v = vp::props::fuzz_face().crossover(a, b, seed, out.len());
    let n = v.len().min(out.len());
    out[..n].copy_from_slice(&v[..n]);
    n
});
