#![no_main]
use libfuzzer_sys::fuzz_target;
use std::sync::Once;

static INIT: Once = Once::new();

fuzz_target!(|data: &[u8]| {
    INIT.call_once(|| {
        vp::gag::install();
        vp::sut::install_panic_hook();
    });
    // The semantic oracle lives in the harness library; any disagreement aborts the process so
    // that libFuzzer saves the input as a crash artefact (= the replay file).
    let out = vp::props::c10::fuzz_response(data);
    if let Some(d) = out.discs.first() {
        eprintln!("FUZZ-VIOLATION: {}", d.msg);
        std::process::abort();
    }
});
