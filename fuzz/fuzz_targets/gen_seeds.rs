//! Writes small valid inputs for the fuzz targets into <dir>/<target>/.
use std::io::Write;
fn main() {
    let dir = std::env::args().nth(1).expect("usage: gen_seeds <dir>");
    vp::gag::install();
    vp::sut::install_panic_hook();
    let put = |t: &str, k: usize, data: &[u8]| {
        let d = format!("{}/{}", dir, t);
        std::fs::create_dir_all(&d).unwrap();
        let mut f = std::fs::File::create(format!("{}/seed-{:03}", d, k)).unwrap();
        f.write_all(data).unwrap();
    };
    for (k, s) in vp::props::c10::fuzz_response_seeds().iter().enumerate() {
        put("block_bytes", k, s);
    }
    for (k, s) in vp::props::c06::fuzz_blob_seeds().iter().enumerate() {
        put("page_blob", k, s);
    }
    // send_tx: a few serialised transactions (legacy, segwit, zero inputs)
    let shapes = [(1u8, 1u8, vec![]), (2, 2, vec![1u8, 0]), (0, 1, vec![]), (3, 0, vec![2, 2, 2])];
    for (k, (n_in, n_out, witness)) in shapes.iter().enumerate() {
        let tx = vp::props::c19::build_tx(&vp::props::c19::TxShape { version: 2, n_in: *n_in, n_out: *n_out, witness: witness.clone(), script_len: 20, lock_time: 0, seed: k as u8 });
        for sel in [0u8, 1, 2, 0x40, 0x80] {
            let mut d = vec![sel];
            d.extend(bitcoin_ser(&tx));
            put("send_tx", k * 10 + sel as usize % 10, &d);
        }
    }
    // transform: one body of each explorer shape
    let bodies: [&[u8]; 5] = [
        b"[{\"chain\":\"BTC\",\"height\":700123,\"hash\":\"00\"}]",
        b"{\"data\":{\"blocks\":1,\"best_block_height\":700123},\"context\":{}}",
        b"{\"name\":\"BTC.main\",\"height\":700123,\"hash\":\"00\"}",
        b"700123",
        b"{\"height\":null}",
    ];
    let mut k = 0;
    for ep in 0u8..11 {
        for b in bodies.iter() {
            let mut d = vec![ep, 0];
            d.extend_from_slice(b);
            put("transform", k, &d);
            k += 1;
        }
    }
}

fn bitcoin_ser(tx: &vp::BitcoinTransaction) -> Vec<u8> {
    vp::serialize_tx(tx)
}
